#!/usr/bin/env python3
"""Regenerate MANIFEST.json from vlib/suites.py (claimed properties) and vlib/manifest_text.py."""
import json, os, sys
V = os.path.dirname(os.path.dirname(os.path.abspath(__file__)))
sys.path.insert(0, V)
from vlib import suites, manifest_text as T

checks = []
for p in suites.PROPS:
    t = T.CHECKS[p]
    checks.append({
        "property_id": p,
        "quick_cmd": "python3 check.py %s --tier quick" % p,
        "thorough_cmd": "python3 check.py %s --tier thorough" % p,
        "evidence_file": "/verif/evidence/%s.json" % p,
        "replay_cmd_template": "python3 check.py %s --replay {path}" % p,
        "engine": t.get("engine", "KM"),
        "level_claimed": {"category": "model_checking", "text": t["text"], "design_ref": t["design_ref"]},
        "level_note": t["note"],
        "technique": t["technique"],
    })
na = [{"property_id": p, "reason": r} for p, r in sorted(T.NOT_APPLICABLE.items()) if p not in suites.PROPS]
m = {
    "version": 1,
    "setup_cmd": "python3 tools/setup.py",
    "hooks": {
        "guard": "cargo feature `verif-hooks` of griddle (off by default)",
        "enable": "harness crates depend on griddle = { path = \"/repo\", features = [\"verif-hooks\"] }",
        "baseline_off_cmd": "cd /repo && cargo test --workspace --no-fail-fast --offline",
        "source_commits": T.HOOK_COMMITS,
        "add_only": True,
    },
    "engines": T.ENGINES,
    "checks": checks,
    "notes": T.NOTES,
    "not_applicable": na,
}
json.dump(m, open(os.path.join(V, "MANIFEST.json"), "w"), indent=1)
print("MANIFEST.json: %d checks, %d not applicable" % (len(checks), len(na)))
