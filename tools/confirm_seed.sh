#!/bin/bash
# usage: confirm_seed.sh <worktree> <seed-id> <property>
# Confirms a seeded change: full suite passes with it, demo fails with it, demo passes without it.
# Stores patch.diff, the demo and meta.json under /verif/seeded/<seed-id>/.
set -u
WT=$1; ID=$2; PROP=$3
OUT=/verif/seeded/$ID
mkdir -p $OUT
cd $WT || exit 2
export CARGO_NET_OFFLINE=true
git diff -- src > $OUT/patch.diff
[ -s $OUT/patch.diff ] || { echo "no source change"; exit 2; }
cp tests/seed_demo.rs $OUT/seed_demo.rs 2>/dev/null || cp seed_demo.rs $OUT/seed_demo.rs
cp seed_meta.txt $OUT/seed_meta.txt 2>/dev/null
# 1. suite with the change (demo moved aside)
mv tests/seed_demo.rs /tmp/seed_demo_$ID.rs 2>/dev/null
S=$(cargo test --offline ${FEAT:-} --no-fail-fast 2>&1 | grep -E "^test result" | awk '{p+=$4; f+=$6} END {print p" passed "f" failed"}')
cp /tmp/seed_demo_$ID.rs tests/seed_demo.rs
# 2. demo with the change
D1=$(cargo test --offline ${FEAT:-} --test seed_demo 2>&1 | grep -E "^test result|signal: [0-9]+, SIG" | head -1)
# 3. demo without (no git stash: the stash is shared between worktrees)
git checkout -q -- src
D0=$(cargo test --offline ${FEAT:-} --test seed_demo 2>&1 | grep -E "^test result" | head -1)
git apply $OUT/patch.diff
python3 - "$OUT" "$ID" "$PROP" "$S" "$D1" "$D0" <<'PY'
import json,sys,os
out,id_,prop,s,d1,d0=sys.argv[1:]
meta={"id":id_,"breaks_property":prop,"source":"sub-agent given only the property text and a scratch worktree",
 "needs_to_manifest": open(os.path.join(out,"seed_meta.txt")).read() if os.path.exists(os.path.join(out,"seed_meta.txt")) else "",
 "confirmed_by_me": {"existing_suite_with_change": s, "demo_with_change": d1, "demo_without_change": d0},
 "ok": ("0 failed" in s) and ("FAILED" in d1 or "signal:" in d1 or "failed" in d1 and "0 failed" not in d1) and ("0 failed" in d0)}
json.dump(meta,open(os.path.join(out,"meta.json"),"w"),indent=1)
print(id_, meta["ok"], "|", s, "|", d1, "|", d0)
PY
