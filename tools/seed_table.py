#!/usr/bin/env python3
"""Render the seeded-change table of DESIGN.md §A.6 from seeded/*/meta.json + detection.json."""
import json, os, re, sys
V = os.path.dirname(os.path.dirname(os.path.abspath(__file__)))
SHORT = {
 "s_C01": ("replace_bucket_with: reflect_remove + reflect_insert instead of snapshot/restore", "replace_entry_with(Some) on the old-table element the cursor yields next"),
 "s_C08": ("same change as s_C01 (independent agent)", "as s_C01; iterators then skip the element"),
 "s_C12": ("same change as s_C01 (independent agent)", "as s_C01; key vanishes when the resize completes"),
 "s_C02": ("insert: hashbrown reserve(1) (in-place rehash) instead of grow when < half full", "unsplit table out of growth room because of tombstones"),
 "s_C03": ("remove_entry 'fast path' that forgets to release an emptied old table", "HashMap::remove of the last old-table element"),
 "s_C04": ("shrink_to: insert headroom only added when min_size <= len", "mid-resize shrink_to(m), len < m < len + ceil(L/R) at a capacity boundary"),
 "s_C05": ("replace_bucket_with: reflect_remove only after the closure returned None", "panicking closure / element beyond the cursor's group"),
 "s_C06": ("replace_bucket_with: iterator snapshot taken after reflect_remove", "replace_entry_with(Some) on an old-table element, then drain/into_iter/insert"),
 "s_C09": ("remove: releases the old table when the MAIN table is empty", "main emptied by removals while >= 2 leftovers remain; drain_filter matching all main + one old element"),
 "s_C13": ("same change as s_C09 (independent agent)", "HashSet::remove/take in that phase"),
 "s_C10": ("reserve: skips grow after carry_all using a stale free-space value", "mid-resize reserve(n) with F - L < n < F"),
 "s_C11": ("clone_from_with_hasher: destination's old table not dropped", "destination mid-resize at clone_from"),
 "r2_C14": ("same change as s_C11 (independent agent)", "as s_C11; dst == dst false"),
 "r2_C01": ("reserve: compares free space with `additional` instead of leftovers + additional", "mid-resize reserve/extend with F - L < n < F: unreachable!() hasher called"),
 "r2_C04": ("shrink_to: headroom term conditional on min_size <= need", "as s_C04"),
 "r2_C06": ("carry_all: ptr::read instead of remove (elements stay in the old table)", "element type with Drop, mid-resize reserve/extend: double drop"),
 "r2_C07": ("carry: element hashed in place before being removed from the old table", "Hash of a relocated element panics inside an insert"),
 "r2_C08": ("RawIntoIter::next: returns the old-table iterator's result unconditionally", "into_iter after retain emptied the old table"),
 "r2_C12": ("Entry::insert (occupied arm): carries after the write but returns the pre-carry handle", "entry(k).insert(v) on an old-table key among the next 8 to move, then use of the handle"),
 "r2_C17": ("try_grow: only need + add checked, `+ inserts` unchecked", "reserve/try_reserve within ceil(len/8) of usize::MAX - len"),
 "r3_C02": ("HashMap::insert overwrite of an old-table element calls carry_all instead of carry", "overwrite of a not-yet-moved key while > 8 leftovers remain"),
 "r3_C03": ("carry: trailing 'old table empty -> release' check deleted", "a carry that starts with exactly R leftovers"),
 "r3_C05": ("erase (ZST branch): RefreshItems guard scoped so the iterator is rebuilt before the erase", "zero-sized element type, retain drops an old-table element"),
 "r3_C09": ("erase (ZST branch): `let _ = RefreshItems(lo)` drops the guard at once", "as r3_C05"),
 "r3_C10": ("try_reserve: leftovers + additional unchecked again", "mid-resize try_reserve(n), n > usize::MAX - leftovers"),
 "r3_C11": ("clone_from: hasher closure built from the destination's old builder", "hashers with different state and a source mid-resize (or hashbrown's re-insert path)"),
 "r3_C13": ("clear: early return when the MAIN table is empty", "mid-resize, main emptied (or just reserved), old table non-empty"),
 "r3_C16": ("same change as r3_C13 (independent agent)", "deserialize_in_place into such a destination"),
 "r4_C01": ("RawVacantEntryMut::insert_with_hasher: re-hash closure `|_| hash` (the new key's hash) handed to the raw insert", "insert_with_hasher while a resize is pending or starting: carried elements filed under the wrong hash"),
 "r4_C12": ("same change as r4_C01 (independent agent)", "as r4_C01; entry(k) Vacant for present keys"),
 "r4_C08": ("set::Drain::size_hint returns (0, upper)", "size_hint() on a HashSet drain with elements left (any phase)"),
 "r4_C09": ("DrainFilterInner::next re-creates its iterator after a remove released the old table", "drain_filter whose predicate matches every old-table element and keeps a main-table one: predicate runs twice"),
 "r4_C13": ("HashMap::insert on a key found in the OLD table: erase + fresh insert, returns None", "re-insert of an element that is still in the old table (HashSet::insert returns true)"),
 "r4_C14": ("PartialEq for HashMap: length guard `>` instead of `!=`", "left operand a strict sub-map of the right one"),
 "r5_C02": ("VacantEntry::insert: reserve(1) on the raw table before inserting", "entry-API insert of a fresh key while split with the tightest headroom (e.g. after a mid-resize shrink_to_fit): carry_all + grow in one call"),
 "r5_C03": ("insert_no_grow: carry skipped when the old table is already empty", "old table emptied by retain / replace_entry_with, then key-adding calls: never released"),
 "r5_C05": ("OccupiedEntry::insert carries after the write, handle keeps the pre-carry bucket", "entry handle reused after insert on an old-table key among the next 8 to move"),
 "r5_C06": ("RefreshItems::drop: iterator rebuild skipped when the old table became empty (ZST)", "zero-sized element, retain/replace_entry_with(None) empties the old table, later insert"),
 "r5_C10": ("try_reserve (split branch): infallible grow() + Ok(())", "mid-resize try_reserve(n) with n unallocatable but leftovers + n not overflowing: panics instead of Err"),
 "r5_C17": ("and_carry_with_hasher: insert_no_grow instead of the growing insert", "clone_from into a smaller destination whose allocation is reused, source mid-resize: growth_left underflow"),
 "r6_C07": ("carry_all: hashes the element in place, removes it from the old table afterwards", "panicking Hash inside a mid-resize reserve: the cached iterator is already past an element that is still stored"),
 "r6_C09": ("map::DrainFilter::drop re-creates the iterator when a removal released the old table", "filter dropped early and the rest of the old table matches: predicate called again on main-table elements"),
 "r6_C11": ("clone_from_with_hasher: fast path `clear()` when the source's main table is empty", "source mid-resize with an empty main table (just reserved / main emptied): clone loses the leftovers"),
 "r6_C13": ("HashSet::union: `smaller.difference(other)` instead of `difference(larger)`", "receiver smaller than the argument: elements only in the argument are missing from the union"),
 "r6_C14": ("HashMap::is_empty looks at the main table only", "mid-resize map whose main table is empty but leftovers are not: is_empty() true with len() > 0"),
 "r6_C16": ("HashSet::deserialize_in_place returns early when the sequence announces size 0", "empty serialized set into a non-empty destination: old elements survive"),
 "r7_C02": ("carry: when one straggler would remain after R moves it is moved too (`len() <= 1`)", "key-adding call while exactly R + 1 leftovers remain (needs removals from the old table): 9 moves"),
 "r7_C04": ("try_grow: `inserts` rounded down (len / R)", "reserve(0)/try_reserve(0)/extend(empty hint) on an exactly full 3- or 7-element map: same-size table, no headroom"),
 "r7_C06": ("RawTable::remove fast path for the last old-table element: ptr::read + release without erasing", "remove/take/drain_filter of the last leftover with Drop types: dropped by the map and handed back"),
 "r7_C08": ("RawIter::size_hint: upper bound of the main-table half only", "any iterator on a mid-resize map while old-table elements are still to come"),
 "r7_C10": ("try_grow: overflow returns Err also on the infallible path; grow() treats Err as unreachable_unchecked", "reserve(n) on a non-empty map with len + headroom + n overflowing: UB (abort in debug, silent return in release)"),
 "r7_C12": ("RawEntryBuilderMut::search skips `find` when the MAIN table is empty (new RawTable::is_empty)", "raw_entry_mut lookup of an old-table key while the main table holds nothing: Vacant, then a duplicate"),
 "r8_C03": ("RawTable::insert_entry delegates to the inner main table's insert_entry (no grow check, no carry)", "mid-resize, keys added through entry()/raw_entry_mut()/get_or_insert*: the old table is never advanced"),
 "r8_C05": ("same change as r5_C17 (independent agent)", "as r5_C17: write past the reused destination allocation"),
 "r8_C11": ("same change as r5_C17 (independent agent)", "as r5_C17: clone_from panics / over-full copy"),
 "r8_C13": ("RawTable::remove_entry returns None at once when the MAIN table is empty", "HashSet::remove/take of a member while the main table holds nothing and leftovers remain"),
 "r8_C17": ("shrink_to: min_size folded into `need` before the unchecked `+=` of the leftover terms", "mid-resize shrink_to(m), m within L + ceil(L/8) of usize::MAX: debug panics, release wraps and shrinks below the leftovers"),
 "r9_C04": ("shrink_to: fast path straight to the inner shrink_to when min_size >= len()", "mid-resize shrink_to(m), len <= m < main + L + ceil(L/8) at a capacity boundary"),
 "r9_C08": ("RawDrain::next: main table first, then `leftovers.take()?.next()`", "drain of a split map with >= 2 leftovers consumed past the main half: one leftover yielded, the rest dropped"),
 "r9_C09": ("ConsumeAllOnDrop (unwind guard of DrainFilter::drop) drains only size_hint().0 (= 0) elements", "needs a panicking element destructor during DrainFilter's Drop: only reachable by unwinding, outside what Kani executes"),
 "r9_C14": ("same change as s_C06 (independent agent)", "as s_C06; iter()/== skip the element"),
 "d1": ("revert of fix dbcf4bd", "retain away the old table; shrink_to_fit; insert"),
 "d35": ("revert of fix dc3af20", "replace_entry_with on an old-table element (panic / beyond cursor group)"),
 "d2": ("revert of fix ce142c0", "HashSet<()>: insert; reserve(10); remove"),
 "d4": ("revert of fix 734cd4c", "split map: try_reserve(usize::MAX)"),
}
rows = []
for sid in sorted(os.listdir(os.path.join(V, "seeded"))):
    d = os.path.join(V, "seeded", sid)
    if not os.path.exists(os.path.join(d, "meta.json")):
        continue
    meta = json.load(open(os.path.join(d, "meta.json")))
    det = json.load(open(os.path.join(d, "detection.json"))) if os.path.exists(os.path.join(d, "detection.json")) else {}
    cells = []
    for p, r in sorted(det.items()):
        if r.get("exit") == 1:
            hs = sorted(set(re.sub(r".*__(km[^_]*)__(.*)\.json", r"\2", l.split("replay=")[-1]) for l in r.get("lines", []) if l.startswith("VIOLATION")))
            cells.append("%s: **caught** (%s)" % (p, ", ".join("`%s`" % h for h in hs[:3])))
        elif r.get("exit") == 0:
            cells.append("%s: missed" % p)
        else:
            cells.append("%s: exit %s" % (p, r.get("exit")))
    ch, need = SHORT.get(sid, ("see meta.json", ""))
    rows.append("| %s (%s) | %s | %s | %s |" % (sid, meta["breaks_property"], ch, need, "; ".join(cells) or "not run"))
print("\n".join(rows))
