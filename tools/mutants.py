#!/usr/bin/env python3
"""Run registered checks against seeded changes (each applied to its own scratch worktree of
/repo; the registered commands themselves always use /repo).  Usage:
   tools/mutants.py [--props C01,C05] [--par 2] seed-id ...
Writes /verif/seeded/<id>/detection.json."""
import argparse, json, os, subprocess, sys, shutil, time
from concurrent.futures import ThreadPoolExecutor
V = os.path.dirname(os.path.dirname(os.path.abspath(__file__)))
sys.path.insert(0, V)
from vlib import suites

def run_seed(sid, props, jobs, tier):
    sd = os.path.join(V, "seeded", sid)
    meta = json.load(open(os.path.join(sd, "meta.json")))
    base = "/tmp/mut/%s" % sid
    shutil.rmtree(base, ignore_errors=True)
    os.makedirs(base)
    wt = os.path.join(base, "repo")
    subprocess.run(["git", "-C", "/repo", "worktree", "add", "-q", "--detach", wt, "HEAD"], check=True)
    try:
        shutil.copy("/repo/Cargo.lock", wt)
        r = subprocess.run(["git", "-C", wt, "apply", os.path.join(sd, "patch.diff")])
        if r.returncode != 0:
            return sid, {"error": "patch does not apply"}
        res = {}
        for p in props or [meta["breaks_property"]]:
            if p not in suites.PROPS:
                res[p] = {"exit": None, "note": "property not claimed"}
                continue
            env = dict(os.environ, VERIF_REPO=wt, VERIF_EVIDENCE_DIR=os.path.join(base, "ev"), VERIF_REPLAY_DIR=os.path.join(base, "replay"),
                       VERIF_WORK=os.path.join(base, "work"), VERIF_JOBS=str(jobs))
            t0 = time.time()
            out = subprocess.run([sys.executable, os.path.join(V, "check.py"), p, "--tier", tier], stdout=subprocess.PIPE, stderr=subprocess.STDOUT, text=True, env=env)
            lines = [l for l in out.stdout.splitlines() if l.startswith(("VIOLATION", "UNCONFIRMED", "INCONCLUSIVE", "ALSO-FAILING", "  failed:", "property="))]
            res[p] = {"exit": out.returncode, "wall_s": round(time.time() - t0), "lines": lines[:30]}
            open(os.path.join(base, "log_%s.txt" % p), "w").write(out.stdout)
        return sid, res
    finally:
        subprocess.run(["git", "-C", "/repo", "worktree", "remove", "--force", wt])
        shutil.rmtree(os.path.join(base, "work"), ignore_errors=True)

def main():
    ap = argparse.ArgumentParser()
    ap.add_argument("seeds", nargs="*")
    ap.add_argument("--props", default="")
    ap.add_argument("--par", type=int, default=2)
    ap.add_argument("--jobs", type=int, default=7)
    ap.add_argument("--tier", default="quick")
    a = ap.parse_args()
    seeds = a.seeds or sorted(os.listdir(os.path.join(V, "seeded")))
    props = [p for p in a.props.split(",") if p]
    with ThreadPoolExecutor(max_workers=a.par) as ex:
        for sid, res in ex.map(lambda s: run_seed(s, props, a.jobs, a.tier), seeds):
            f = os.path.join(V, "seeded", sid, "detection.json")
            old = json.load(open(f)) if os.path.exists(f) else {}
            old.update(res)
            json.dump(old, open(f, "w"), indent=1)
            for p, r in res.items():
                print(sid, p, "exit", r.get("exit"), r.get("wall_s"), [l for l in r.get("lines", []) if l.startswith(("VIOLATION", "UNCONF", "INCONCL"))][:2], flush=True)

if __name__ == "__main__":
    main()
