#!/usr/bin/env python3
"""Offline setup after a fresh restore: check the tools are present and warm nothing else.
Everything is rebuilt from /repo's working tree by each check."""
import shutil, subprocess, sys, os
need = ["cargo", "cbmc", "goto-cc", "goto-instrument"]
missing = [t for t in need if shutil.which(t) is None]
if missing:
    print("missing tools:", missing); sys.exit(1)
r = subprocess.run(["cargo", "kani", "--version"], stdout=subprocess.PIPE, stderr=subprocess.STDOUT, text=True)
print(r.stdout.strip())
if r.returncode != 0:
    sys.exit(1)
here = os.path.dirname(os.path.dirname(os.path.abspath(__file__)))
r = subprocess.run([sys.executable, os.path.join(here, "tools/extract_hb.py")])
sys.exit(r.returncode)
