#!/usr/bin/env python3
"""Run quick checks against behaviour-preserving refactors (benign/<id>/patch.diff), each applied
to a scratch worktree of /repo: every check must exit 0 (no false alarm). Writes
benign/<id>/result.json.  Usage: tools/benign.py [--props C01,C03] [ids...]"""
import argparse, json, os, subprocess, sys, shutil, time
V = os.path.dirname(os.path.dirname(os.path.abspath(__file__)))
sys.path.insert(0, V)
from vlib import suites

def main():
    ap = argparse.ArgumentParser()
    ap.add_argument("ids", nargs="*")
    ap.add_argument("--props", default="C01,C03,C04,C05,C08,C09,C10")
    ap.add_argument("--jobs", type=int, default=7)
    a = ap.parse_args()
    ids = a.ids or sorted(os.listdir(os.path.join(V, "benign")))
    for bid in ids:
        base = "/tmp/ben/%s" % bid
        shutil.rmtree(base, ignore_errors=True)
        os.makedirs(base)
        wt = os.path.join(base, "repo")
        subprocess.run(["git", "-C", "/repo", "worktree", "add", "-q", "--detach", wt, "HEAD"], check=True)
        try:
            shutil.copy("/repo/Cargo.lock", wt)
            subprocess.run(["git", "-C", wt, "apply", os.path.join(V, "benign", bid, "patch.diff")], check=True)
            res = {}
            for p in a.props.split(","):
                env = dict(os.environ, VERIF_REPO=wt, VERIF_EVIDENCE_DIR=os.path.join(base, "ev"), VERIF_REPLAY_DIR=os.path.join(base, "replay"),
                           VERIF_WORK=os.path.join(base, "work"), VERIF_JOBS=str(a.jobs))
                t0 = time.time()
                out = subprocess.run([sys.executable, os.path.join(V, "check.py"), p, "--tier", "quick"], stdout=subprocess.PIPE, stderr=subprocess.STDOUT, text=True, env=env)
                lines = [l for l in out.stdout.splitlines() if l.startswith(("VIOLATION", "UNCONFIRMED", "INCONCLUSIVE", "  failed:"))]
                res[p] = {"exit": out.returncode, "wall_s": round(time.time() - t0), "lines": lines[:10]}
                print(bid, p, "exit", out.returncode, lines[:2], flush=True)
            f = os.path.join(V, "benign", bid, "result.json")
            old = json.load(open(f)) if os.path.exists(f) else {}
            old.update(res)
            json.dump(old, open(f, "w"), indent=1)
        finally:
            subprocess.run(["git", "-C", "/repo", "worktree", "remove", "--force", wt])
            shutil.rmtree(base, ignore_errors=True)

if __name__ == "__main__":
    main()
