"""Texts for MANIFEST.json (kept next to the suites so they are edited together)."""
HOOK_COMMITS = ["39c5112"]

ENGINES = [
    {"name": "KM", "path": "/verif/kani-km + /verif/hbmodel",
     "serves_properties": ["C01"],
     "kind_free_text": "Kani 0.68 compiles griddle (unchanged, /repo working tree) against a contract model of hashbrown's raw API; CBMC 6.11/CaDiCaL decides one-step inductive harnesses from arbitrary INV states (concrete table layouts, symbolic contents/arguments/callback decisions)"},
]

NOTES = ("Exit codes: 0 held on everything explored; 1 VIOLATION (solver counterexample replayed natively through "
         "Kani concrete playback); 2 inconclusive (timeout, out of memory, build failure, unconfirmed counterexample). "
         "DESIGN.md explains the engines; known_findings.json lists recorded/fixed defects.")

_KM_NOTE = ("Trusted: Kani's MIR->goto translation, CBMC, CaDiCaL; the hashbrown contract model (hbmodel) as an "
            "over-approximation of hashbrown 0.14.5's raw API; the paper induction from 'every call preserves INV' to "
            "'every history'. Bounds: tables <= 16 buckets, one call per harness, layouts enumerated, contents symbolic.")

CHECKS = {
    "C01": dict(
        text="Bounded model checking of griddle's compiled code: for each map operation and each table-pair layout class, CBMC shows for ALL keys/values/arguments that return value, len and extensional contents match the reference map and INV is preserved; covers every resize phase by construction rather than by reaching it through histories.",
        design_ref="DESIGN.md §3, §5 C01", note=_KM_NOTE,
        technique="SAT-based bounded model checking (Kani/CBMC) of one-step inductive harnesses over symbolic table states"),
}

NOT_APPLICABLE = {
    "C15": "rayon work-stealing schedules: Kani/CBMC has no concurrency support and rayon-core cannot be symbolically executed; see DESIGN.md §6",
}
for _p in ["C02", "C03", "C04", "C05", "C06", "C07", "C08", "C09", "C10", "C11", "C12", "C13", "C14", "C16", "C17"]:
    NOT_APPLICABLE.setdefault(_p, "check under construction in this session (harnesses not yet registered); will be claimed once its quick tier passes on the unchanged tree")
