"""Texts for MANIFEST.json (kept next to the suites so they are edited together)."""
HOOK_COMMITS = ["39c5112", "584a771"]

ENGINES = [
    {"name": "KM", "path": "/verif/kani-km + /verif/hbmodel",
     "serves_properties": ["C01", "C02", "C03", "C04", "C05", "C06", "C07", "C08", "C09", "C10", "C11", "C12", "C13", "C14", "C16", "C17"],
     "kind_free_text": "Kani 0.68 compiles griddle (unchanged, /repo working tree) against a contract model of hashbrown's raw API; CBMC 6.11/CaDiCaL decides one-step inductive, traversal and counters harnesses from arbitrary INV states (concrete table layouts; symbolic contents, arguments, callback decisions; 64-bit symbolic sizes in counters mode)"},
    {"name": "KV-lite", "path": "/verif/kani-kv", "serves_properties": ["C05"],
     "kind_free_text": "Kani/CBMC on the REAL hashbrown 0.14.5 (portable group): the facts the model's iterator rests on (reflect_remove-before-remove keeps the iterator exact, reflect_insert is not its inverse, replace_bucket_with restores the bucket, small-table sizing)"},
    {"name": "KR-lite", "path": "/verif/kani-kr", "serves_properties": ["C05"],
     "kind_free_text": "Kani/CBMC on griddle + the REAL hashbrown: concrete 8-insert prefix at R = 4 (mid-resize), one call with a symbolic key, consistency of get/iter/len/cached iterator afterwards; thorough tier"},
]

NOTES = ("Exit codes: 0 held on everything explored; 1 VIOLATION (solver counterexample replayed natively through "
         "Kani concrete playback); 2 inconclusive (timeout, out of memory, build failure, unconfirmed counterexample). "
         "DESIGN.md explains the engines; known_findings.json lists recorded/fixed defects.")

_KM_NOTE = ("Trusted: Kani's MIR->goto translation, CBMC, CaDiCaL; the hashbrown contract model (hbmodel) as an "
            "over-approximation of hashbrown 0.14.5's raw API; the paper induction from 'every call preserves INV' to "
            "'every history'. Bounds: tables <= 16 buckets, one call per harness, layouts enumerated, contents symbolic.")

CHECKS = {
    "C01": dict(
        text="Bounded model checking of griddle's compiled code: for each map operation and each table-pair layout class (unsplit / resize just started / partly moved / old table emptied), CBMC shows for ALL keys, values and arguments that the return value, len and the extensional contents (via a universally quantified witness key) equal the reference map's and that the representation invariant INV is preserved. Covers every resize phase by construction instead of reaching it through histories; zero-sized elements included.",
        design_ref="DESIGN.md §3, §5 C01", note=_KM_NOTE,
        technique="SAT-based bounded model checking (Kani/CBMC) of one-step inductive harnesses over symbolic table states"),
    "C02": dict(
        text="Per-call work is counted inside the harness hasher (hash computations) and the model (elements taken out of a table, table allocations, dependency-internal rehashes). Counters mode makes every size an unconstrained 64-bit variable, so the constant bounds (10 hashes, 8 moves, 1 allocation, 0 dependency rehashes) are shown for maps of any size; slots mode repeats them with real element movement.",
        design_ref="DESIGN.md §3.3, §5 C02", note=_KM_NOTE + " Counters mode: element identity abstracted (lookups answer nondeterministically); leftovers <= 18 where a loop walks them.",
        technique="SAT-based bounded model checking (Kani/CBMC), counters-mode model with unconstrained 64-bit sizes"),
    "C03": dict(
        text="Exact progress per call (L' = L - min(R, L) for every key-adding call - HashMap::insert, VacantEntry::insert, raw-entry insert / or_insert* / vacant inserts, HashSet::insert / get_or_insert* - for any L <= 18 and any main-table size) and release of the old table as soon as it is emptied by remove / entry removal / drain_filter / clear / drain, with at most two live tables at every call boundary; decided for all contents by CBMC. The induction to 'finished within ceil(L/R) calls' is a stated paper step.",
        design_ref="DESIGN.md §5 C03", note=_KM_NOTE,
        technique="SAT-based bounded model checking (Kani/CBMC) of one-step inductive harnesses; counters mode for arbitrary sizes"),
    "C04": dict(
        text="The headroom invariant I4 (main growth_left >= L + ceil(L/R)) is shown inductive for every size-changing call with all counters unconstrained 64-bit values (insert, remove, reserve, try_reserve, shrink_to, shrink_to_fit, with_capacity, clear), together with capacity() >= len(), capacity() non-decreasing across key-adding calls and 'fresh key with capacity() > len() never allocates'. Slots mode adds the Some(empty)-leftovers and tombstone corner cases with real elements.",
        design_ref="DESIGN.md §3.4, §5 C04", note=_KM_NOTE,
        technique="SAT-based bounded model checking (Kani/CBMC); inductive invariant over unconstrained 64-bit counters"),
    "C05": dict(
        text="Unsafe preconditions of hashbrown's raw API are ghost assertions in the model (iterator over-read, stale cached group, reflect_remove after the removal / for a non-pending bucket / on a zero-sized type, foreign or non-full bucket, insert_no_grow without room, use after free via CBMC's pointer checks) and cursor agreement I2 is asserted after every call that can touch the old table, for all contents; both with and without debug assertions.",
        design_ref="DESIGN.md §5 C05", note=_KM_NOTE + " Real hashbrown's own unsafe code is executed only by the KV-lite facts (quick) and the KR-lite scenarios (thorough).",
        technique="SAT-based bounded model checking (Kani/CBMC) with contract (ghost) assertions and CBMC pointer checks"),
    "C07": dict(
        text="PARTIAL: Kani has no unwinding, so a caught panic cannot be executed. Decided instead: at the instant a replace_entry_with closure runs inside a griddle frame (crash point = that instant), the map already satisfies INV minus the element in flight, for all contents and layouts; griddle has no drop guard on that path, so this is the state catch_unwind leaves. Covered callbacks: replace_entry_with (raw and occupied handles), retain (symbolic crash index), drain_filter (enumerated), or_insert_with, and_modify, and Hash invoked from insert/carry and from reserve/carry_all (enumerated crash index). Not covered: Eq, Clone, Drop panics and anything that needs real unwinding through hashbrown frames.",
        design_ref="DESIGN.md §5 C07", note=_KM_NOTE + " No unwinding semantics: panics inside hashbrown frames, Eq/Clone/Drop panics are outside the claim.",
        technique="SAT-based bounded model checking (Kani/CBMC); invariant asserted at callback instants"),
    "C08": dict(
        text="Each iterator kind is driven to exhaustion (and two steps beyond) from arbitrary INV states; exact len()/size_hint() at every step, each element exactly once (witness key), fusedness, clone independence at an enumerated clone point, keys()/values() order agreement; into_iter/drain dropped or forgotten at enumerated prefixes leave no table behind / an empty usable map. All contents symbolic.",
        design_ref="DESIGN.md §5 C08", note=_KM_NOTE + " Step counts and clone points are enumerated per harness, <= 9 elements.",
        technique="SAT-based bounded model checking (Kani/CBMC) with a universally quantified witness key"),
    "C09": dict(
        text="retain: predicate answers are a solver variable (mask over the call index, i.e. every predicate), values mutated by a symbolic constant; drain_filter: answer mask, number of next() calls and drop-vs-forget enumerated per harness (a symbolic answer makes the cached iterators' position symbolic), contents symbolic. Exactly-once predicate calls, exact partition, early drop / forget semantics, INV afterwards; HashSet::drain_filter likewise. Not covered: a panicking element destructor inside DrainFilter's Drop (the ConsumeAllOnDrop guard only runs during unwinding, which Kani does not execute; seed r9_C09 is a recorded miss).",
        design_ref="DESIGN.md §5 C09", note=_KM_NOTE,
        technique="SAT-based bounded model checking (Kani/CBMC); predicates as answer masks over the call index"),
    "C10": dict(
        text="reserve / try_reserve / shrink_to / shrink_to_fit / with_capacity contracts with the argument and all table counters unconstrained usize values (counters mode), including the overflow region where try_reserve must return Err and reserve must not return; Kani reports any arithmetic overflow on the way. Slots mode repeats them at <= 16 buckets with contents.",
        design_ref="DESIGN.md §5 C10", note=_KM_NOTE + " Allocation failure (AllocError) is outside the claim.",
        technique="SAT-based bounded model checking (Kani/CBMC) over unconstrained 64-bit sizes"),
    "C12": dict(
        text="Occupied/vacant handle methods (through the guarded hooks that build the handles as entry() does — the Entry enum itself is intractable for CBMC) and the whole raw-entry API, from arbitrary INV states with symbolic keys: handle designates the element wherever stored, writes through returned references are seen by later lookups, inserting calls that start a resize return a handle to the new element, replace_entry_with(None) then insert leaves the key exactly once; all six builder lookups (raw_entry_mut / raw_entry x from_key / from_key_hashed_nocheck / from_hash) report Occupied / Some exactly when the key is present, including the layout whose main table is empty while leftovers remain.",
        design_ref="DESIGN.md §5 C12", note=_KM_NOTE + " Entry::or_insert*/or_default/insert dispatch (3-line matches) is not executed; entry()'s Occupied/Vacant decision is.",
        technique="SAT-based bounded model checking (Kani/CBMC) of per-method harnesses"),
    "C06": dict(
        text="Drop ledger decided by CBMC for all contents: keys and values are tokens whose Drop counts iff their id equals a universally quantified witness id; for insert (duplicate key, displaced value), remove/remove_entry, clear, retain, drain / into_iter / drain_filter consumed to enumerated prefixes then dropped (or forgotten), replace_entry / replace_key / replace_entry_with, entry removal and clone: created + cloned == dropped + handed back, and zero live table allocations once map and iterators are gone.",
        design_ref="DESIGN.md §5 C06", note=_KM_NOTE + " Panic-free histories only; iterator consumption prefixes enumerated.",
        technique="SAT-based bounded model checking (Kani/CBMC) with witness-id drop tokens"),
    "C11": dict(
        text="Source in any INV state, destination (clone_from) in any INV state with its own contents and a different hasher id: extensional equality of contents via the witness key, source bit-identical afterwards, destination unsplit with its previous contents (old table included) gone, hasher adopted, every hash computed during the call uses the source's builder, stored hashes consistent with the adopted builder (I6), no shared allocation, and a later write to the copy is invisible through the source.",
        design_ref="DESIGN.md §5 C11", note=_KM_NOTE,
        technique="SAT-based bounded model checking (Kani/CBMC) over pairs of symbolic table states"),
    "C13": dict(
        text="Element operations of HashSet (insert, remove, take, get, get_or_insert*, contains, retain, clear, extend, iter/drain/into_iter) decided per operation from arbitrary INV states with symbolic elements; is_subset / is_superset / is_disjoint / == on pairs of sets with symbolic contents against the definitions; the lazy algebra (union, intersection, difference, symmetric_difference, one operator form) on enumerated concrete-content pairs in different phases. Declined: HashSet::replace (Entry enum) and lazy iterators walking a mid-resize operand against a non-empty one (CBMC does not finish).",
        design_ref="DESIGN.md §5 C13", note=_KM_NOTE + " Lazy algebra: contents concrete (bucket index = element), operand pairs enumerated.",
        technique="SAT-based bounded model checking (Kani/CBMC); witness element for exactly-once yields"),
    "C14": dict(
        text="Pairs (and a triple) of maps in different shapes, phases and hasher ids whose contents are related only by assumptions over stored pairs: equal contents imply ==, symmetry, reflexivity, equal len/get/contains and equal iteration multiplicity for the witness key; a single differing value (also one parked in an old table) or key implies != both ways; transitivity on three maps; and the read-only API itself (len, is_empty, get, contains_key, get_key_value) against a scan of both tables in the layouts where a phase-dependent answer would show (main table empty with leftovers, cursor in a later group). Debug output excluded (core::fmt).",
        design_ref="DESIGN.md §5 C14", note=_KM_NOTE + " 4 elements per map; Debug formatting outside the claim.",
        technique="SAT-based bounded model checking (Kani/CBMC) over pairs/triples of symbolic table states"),
    "C16": dict(
        text="With the serde feature: (1) serialising a map/set in any INV state declares exactly len() and emits each element exactly once, in iteration order (recording Serializer, symbolic contents); (2) deserialising ANY record of <= 3 symbolic entries (duplicates allowed) yields the map sequential insertion yields, and HashSet::deserialize_in_place into any INV destination leaves exactly the record's elements (an empty record leaves it empty). (1) and (2) compose to the round trip; a single round-trip harness does not finish under CBMC.",
        design_ref="DESIGN.md §5 C16, A.3", note=_KM_NOTE + " The Serializer/Deserializer are 150 lines in the harness crate (no data format, no formatting); records of <= 3 entries.",
        technique="SAT-based bounded model checking (Kani/CBMC) with a recording Serializer and a replaying Deserializer"),
    "C17": dict(
        text="The same harnesses are decided twice, with and without -C debug-assertions; the functional postconditions fully determine results, so both passing means equal behaviour. No assertion tagged debug-only (griddle's or the dependency's, mirrored in the model) may fail in the debug build, and Kani's overflow checks (always on) show no size computation can wrap.",
        design_ref="DESIGN.md §3.10, §5 C17", note=_KM_NOTE + " -C overflow-checks=off is not honoured by Kani; a reachable overflow is reported instead.",
        technique="SAT-based bounded model checking (Kani/CBMC) under two build configurations"),
}

NOT_APPLICABLE = {
    "C15": "rayon work-stealing schedules: Kani/CBMC has no concurrency support and rayon-core cannot be symbolically executed; see DESIGN.md §6",
}
