"""Which harnesses decide which property, per tier, and under which build configuration.

A build configuration = one `cargo kani --only-codegen` of a harness crate:
  km        griddle + contract model, slots mode, R = 8, debug assertions on   (DESIGN §3)
  km-rel    same with -C debug-assertions=off                                   (DESIGN §3.10)
  km-r4     same built with --cfg miri: the crate's own R = 4 configuration
  km-cnt    counters mode (64-bit sizes)
Harness names may be fnmatch patterns; they are resolved against the compiled crate.
"""

CONFIGS = {
    "km": dict(crate="kani-km", features=[], cfg_miri=False, rustflags=""),
    "km-rel": dict(crate="kani-km", features=[], cfg_miri=False, rustflags="-C debug-assertions=off"),
    "km-r4": dict(crate="kani-km", features=[], cfg_miri=True, rustflags=""),
    # KV-lite: facts about the REAL hashbrown the model relies on (portable group via --cfg miri)
    "kv": dict(crate="kani-kv", features=[], cfg_miri=True, rustflags=""),
    # KR-lite: griddle on the REAL hashbrown (portable group + griddle's own R = 4 via --cfg miri)
    "kr": dict(crate="kani-kr", features=[], cfg_miri=True, rustflags=""),
    # insertion position in the model is a solver variable (any vacant bucket) instead of the lowest one
    "km-np": dict(crate="kani-km", features=["nondet-placement"], cfg_miri=False, rustflags=""),
    "km-serde": dict(crate="kani-km", features=["serde"], cfg_miri=False, rustflags=""),
    "km-cnt": dict(crate="kani-km", features=["counters"], cfg_miri=False, rustflags=""),
    "km-cnt-rel": dict(crate="kani-km", features=["counters"], cfg_miri=False, rustflags="-C debug-assertions=off"),
}

# per-harness caps (seconds, GiB)
CAPS = {"quick": (900, 12), "thorough": (3600, 16)}

# property -> tier -> list of (config, [harness patterns])
SUITES = {
    "C01": {
        "quick": [("km", ["st_insert__u4f", "st_insert__s8_4a", "st_insert__s8_e", "st_insert__s4f_e",
                          "st_remove__s8_4a", "st_remove__s8_8g0", "st_remove__s8m0_4a", "st_remove_entry__s8_4one",
                          "st_lookup__s8_8g0", "st_lookup__s8m0_4a", "st_lookup__u8_3t", "st_clear__s8_8g4", "st_clear__s8m0_4a",
                          "st_raw_replace_with__s8_8g0", "it_iter_mut__s8_4a",
                          "zst_remove__old", "zst_remove__old2", "zst_insert__old", "en_raw_or_insert__u4f", "en_raw_vacant_with_hasher__u4f",
                          # extend / from_iter go through reserve: no undocumented panic, contents kept
                          "cap_reserve__s8_4a", "cap_reserve__s8_8g4"]),
                  ("km-cnt", ["cnt_reserve__split"])],
        "thorough": [("km-np", ["st_insert__u4f", "st_insert__s8_4a", "st_insert__s8_8g4", "st_insert__s4f_e", "en_vacant_insert__u4f", "en_vacant_insert__s8_4a", "en_raw_or_insert__u4f", "st_remove__s8_8g0"]), ("km-cnt", ["cnt_reserve__*", "cnt_try_reserve__*"]), ("km", ["cap_reserve__*", "st_*", "zst_*", "it_iter_mut__*", "it_values_mut__*", "en_raw_*", "en_vacant_insert__*"]),
                     ("km-rel", ["st_insert__s8_4a", "st_remove__s8_8g0", "st_raw_replace_with__s8_8g0"]),
                     ("km-r4", ["st_insert__s16_8", "st_insert__s8_8g0", "st_remove__s8_8g4"])],
    },
    "C02": {
        "quick": [("km-cnt", ["cnt_insert__unsplit", "cnt_insert__split", "cnt_insert__split_empty", "cnt_insert__unallocated", "cnt_remove__split"]),
                  ("km", ["en_vacant_insert__s8t_4a", "st_lookup__s8_4a", "st_remove__s8_4a", "st_insert__u4f", "st_insert__u4ft", "en_vacant_insert__u4f",
                          "en_raw_vacant_hashed__s8_4a", "en_occ_remove__s8_4one", "rt_retain__s8_e"])],
        "thorough": [("km-cnt", ["cnt_insert__*", "cnt_remove__*", "cnt_vacant_insert__*"]),
                     ("km", ["st_insert__*", "st_lookup__*", "st_remove__*", "en_vacant_insert__*", "en_raw_*", "en_occ_*", "rt_retain__*"])],
    },
    "C03": {
        "quick": [("km-cnt", ["cnt_insert__unsplit", "cnt_insert__split", "cnt_insert__split_empty", "cnt_remove__split", "cnt_clear__split", "cnt_reserve__split", "cnt_insert3__split_completes", "cnt_vacant_insert__split"]),
                  ("km", ["st_remove__s8_4one", "st_remove__s8m0_4a", "st_insert__s8_4a", "st_insert__s8_8g4", "st_clear__s8_e", "st_clear__s8m0_4a",
                          "en_occ_remove__s8_4one", "rt_drain_filter__s8_4a_m0111_end", "rt_drain_filter__s8_8g4_m110_end",
                          "it_drain__s8_4a_j1", "rt_retain__s8_8g0",
                          # every other key-adding path makes the same progress as HashMap::insert
                          "en_vacant_insert__s8_4a", "en_raw_or_insert__s8_4a", "en_raw_vacant_hashed__s8_4a", "se_get_or_insert__s8_4a", "se_insert__s8_4a"])],
        "thorough": [("km-cnt", ["cnt_*"]),
                     ("km", ["st_remove__*", "st_insert__*", "st_clear__*", "en_occ_remove*", "rt_drain_filter__*", "it_drain__*", "rt_retain__*",
                             "en_vacant_insert__*", "en_raw_*", "se_get_or_insert*", "se_insert__*"]),
                     ("km-r4", ["st_insert__s16_8", "st_insert__s8_8g0"])],
    },
    "C04": {
        "quick": [("km-cnt", ["cnt_insert__unsplit", "cnt_insert__split", "cnt_insert__split_empty", "cnt_insert__unallocated",
                              "cnt_shrink_to__split", "cnt_shrink_to__unsplit", "cnt_shrink_to_fit__split",
                              "cnt_reserve__split", "cnt_reserve__unsplit", "cnt_try_reserve__split", "cnt_with_capacity", "cnt_remove__split", "cnt_insert3__split_completes"]),
                  ("km", ["st_insert__s4f_e", "st_insert__u4ft", "cap_shrink_to_fit__s8_e", "cap_shrink_to__s16_4a", "rt_retain__s8m0_4a"])],
        "thorough": [("km-cnt", ["cnt_*"]), ("km", ["st_insert__*", "cap_*", "rt_retain__*"]),
                     ("km-r4", ["cap_shrink_to__s16_4a", "st_insert__s16_8"])],
    },
    "C05": {
        "quick": [("km", ["st_remove__s8_8g0", "st_remove__s8_8g4", "st_raw_replace_with__s8_8g0", "st_raw_replace_with__s8_8g4",
                          "rt_retain__s8_8g0", "rt_drain_filter__s8_8g0_m1110_end", "rt_drain_filter__s8_4a_m0111_end",
                          "zst_remove__old", "zst_remove__old2", "zst_retain__old2_drop", "zst_retain__old2_keep", "en_occ_remove__s8_8g4", "en_occ_replace_with__s8_8g0", "en_occ_insert__s8_8g4",
                          "it_drain__s8_8g4_j1", "it_into_iter__s8_8g4_j1", "st_insert__s8_8g4", "cl_clone_from__s8_4a__u4f"]),
                  ("km-rel", ["st_raw_replace_with__s8_8g0", "st_remove__s8_8g0"]),
                  ("kv", ["kv_reflect_insert_is_not_an_inverse", "kv_replace_bucket_with_restores", "kv_sizing_small"]),
                  ("kr", ["kr_split_prefix_is_split"])],
        "thorough": [("km-np", ["st_insert__u4f", "st_insert__s8_4a", "st_insert__s8_8g4", "st_insert__s4f_e", "en_vacant_insert__u4f", "en_vacant_insert__s8_4a", "en_raw_or_insert__u4f", "st_remove__s8_8g0"]), ("kv", ["kv_*"]), ("kr", ["kr_*"]), ("km", ["st_*", "rt_*", "zst_*", "en_occ_*", "it_drain__*", "it_into_iter__*", "pan_raw_*"]),
                     ("km-rel", ["st_raw_replace_with__*", "st_remove__*", "rt_retain__s8_8g0", "en_occ_replace_with__*"])],
    },
    "C07": {
        "quick": [("km", ["pan_raw_replace_entry_with__s8_4a", "pan_raw_replace_entry_with__s8_8g0", "pan_raw_replace_entry_with__s8_8g4",
                          "pan_replace_entry_with__s8_8g0", "pan_retain__s8_4a", "pan_retain__s8_8g0", "pan_drain_filter__s8_4a_m0111_at3",
                          "pan_drain_filter__s8_8g0_m0110_at3", "pan_or_insert_with__u4f", "pan_or_insert_with__s8_4a", "pan_and_modify__s8_8g0",
                          "pan_hash_in_insert__s8_4a_at1", "pan_hash_in_insert__s8_8g4_at1", "pan_hash_in_insert__u4f_at2",
                          "pan_hash_in_reserve__s8_4a_at0", "pan_hash_in_reserve__s8_4a_at1"])],
        "thorough": [("km", ["pan_*"])],
    },
    "C08": {
        "quick": [("km", ["it_iter__s8_4a_c0", "it_iter__s8_8g4_c1", "it_iter__s8_e_c1", "it_iter__u8_3t_c1", "it_keys_values__s8_8g4",
                          "it_iter_mut__s8_8g4", "it_values_mut__s8_8g4", "it_into_iter__s8_4a_j1", "it_into_iter__s8_8g4_end",
                          "it_into_iter__s8_e_end", "it_drain__s8_4a_j1", "it_drain__s8_8g4_j2f", "it_drain__s8_4a_end", "it_drain__u8_3t_endf", "se_iter__s8_8g4", "se_drain__s8_4a", "se_into_iter__s8_8g4",
                          # iterators are built from the cached old-table iterator: the calls that must keep it exact (I2)
                          "st_raw_replace_with__s8_8g0", "st_remove__s8_8g0", "rt_retain__s8_8g0", "st_insert__s8_8g4"])],
        "thorough": [("km", ["it_*"])],
    },
    "C09": {
        "quick": [("km", ["rt_retain__s8_4a", "rt_retain__s8_8g0", "rt_retain__s8_e", "rt_retain__u8_3t",
                          "rt_drain_filter__s8_4a_m0111_end", "rt_drain_filter__s8_4a_m1100_end", "rt_drain_filter__s8_4a_m1010_j1", "rt_drain_filter__s8_4a_m1100_j1", "rt_drain_filter__s8_4a_m1111_j0",
                          "rt_drain_filter__s8_4a_m1101_j2f", "rt_drain_filter__s8_8g0_m1110_end", "rt_drain_filter__s8_8g4_m101_j1",
                          "rt_drain_filter__u8_3t_m101_end", "rt_drain_filter__s8_e_m010_end", "se_retain__s8_8g0", "zst_retain__old2_drop", "zst_retain__old2_keep"])],
        "thorough": [("km", ["rt_*", "se_retain__*", "se_drain_filter__*", "zst_retain__*"])],
    },
    "C10": {
        "quick": [("km-cnt", ["cnt_reserve__split", "cnt_reserve__unsplit", "cnt_try_reserve__split", "cnt_try_reserve__unsplit",
                              "cnt_try_reserve__unallocated", "cnt_shrink_to__split", "cnt_shrink_to__unsplit", "cnt_shrink_to_fit__split", "cnt_with_capacity"]),
                  ("km", ["cap_try_reserve__s8_4a", "cap_reserve__s8_e", "cap_shrink_to__s16_4a", "cap_shrink_to_fit__s8_e", "cap_with_capacity"])],
        "thorough": [("km-cnt", ["cnt_*reserve*", "cnt_shrink*", "cnt_with_capacity"]), ("km", ["cap_*", "st_from_iter3"]),
                     ("km-cnt-rel", ["cnt_try_reserve__split", "cnt_reserve__split"])],
    },
    "C12": {
        "quick": [("km", ["en_dispatch__s8_8g0", "en_dispatch__s8m0_4a", "en_raw_or_insert__s8m0_4a", "en_occ_read__s8_8g0", "en_occ_get_mut__s8_8g0", "en_occ_insert__s8_4a", "en_occ_remove__s8_8g0",
                          "en_occ_replace_entry__s8_8g0", "en_occ_replace_key__s8_8g4", "en_occ_replace_with__s8_8g0", "en_occ_replace_with__s8_4one",
                          "en_vacant_insert__u4f", "en_vacant_insert__s8_4a", "en_vacant_insert__s4f_e", "en_vacant_insert__s8t_4a", "en_occ_insert__s8_8g4",
                          "en_raw_insert__u4f", "en_raw_or_insert__u4f", "en_raw_and_modify__s8_8g0", "en_raw_vacant_hashed__s8_4a", "en_raw_vacant_with_hasher__u4f",
                          "en_raw_occ_misc__s8_8g4", "st_raw_replace_with__s8_8g4"])],
        "thorough": [("km-np", ["st_insert__u4f", "st_insert__s8_4a", "st_insert__s8_8g4", "st_insert__s4f_e", "en_vacant_insert__u4f", "en_vacant_insert__s8_4a", "en_raw_or_insert__u4f", "st_remove__s8_8g0"]), ("km", ["en_*", "st_raw_replace_with__*"])],
    },
    "C06": {
        "quick": [("km", ["dr_insert__s8_4a", "dr_insert__u4f", "dr_remove__s8_4one", "dr_remove__s8_8g4", "dr_clear_drop__s8_8g4", "dr_clear_drop__s8m0_4a",
                          "dr_retain__s8_8g0", "dr_drain__s8_4a_j1", "dr_drain__s8_4a_end", "dr_drain__s8_4a_j2f", "dr_into_iter__s8_4a_j1", "dr_into_iter__s8_8g4_end",
                          "dr_drain_filter__s8_4a_m1101_j1", "dr_entry_replace_entry__s8_8g0", "dr_entry_replace_key__s8_8g0", "dr_entry_replace_with__s8_8g0", "dr_entry_replace_with__s8_8g4",
                          "dr_entry_remove__s8_8g4", "dr_clone__s8_4a", "it_into_iter__s8_4a_j1", "dr_reserve__s8_4a", "dr_extend1__s8_4a",
                          # zero-sized elements: a stale cached iterator makes a later carry take (and drop) an element twice
                          "zst_retain__old2_drop", "zst_remove__old2"])],
        "thorough": [("km", ["dr_*", "it_into_iter__*"])],
    },
    "C11": {
        "quick": [("km", ["cl_clone__s8_4a", "cl_clone__s8_8g4", "cl_clone__u8_3t", "cl_clone__s8_e", "cl_clone_from__s8_4a__s8_4a", "cl_clone_from__s8_4a__u0",
                          "cl_clone_from__u8_3t__s8_8g4", "cl_clone_from__s8_8g4__u4f", "cl_clone_from__u0__s8_4a", "cl_clone_from__s8_e__s8_e", "cl_clone_from__s8_4a__u4f", "cl_clone_from__s8m0_4a__s8_4a", "cl_clone__s8m0_4a", "dr_clone__s8_8g4"])],
        "thorough": [("km", ["cl_*", "dr_clone__*"])],
    },
    "C13": {
        "quick": [("km", ["se_insert__s8_4a", "se_insert__s8_4one", "se_concrete__ka_old", "se_concrete__ka_main", "se_remove__s8_8g0", "se_remove__s8m0_4a", "se_take__s8_4one", "se_take__s8m0_4a", "se_get__s8_8g4",
                          "se_get_or_insert__u4f", "se_get_or_insert__s8m0_4a", "se_get_or_insert_with__s8_8g4", "se_retain__s8_8g0", "se_clear__s8_8g4", "se_clear__s8m0_4a", "se_extend1__s8_4a",
                          "se_iter__s8_8g4", "se_drain__s8_4a", "se_union__c_f", "se_union__a_e", "se_union__e_c", "se_union__f_c", "se_intersection__c_a", "se_intersection__a_c",
                          "se_difference__c_a", "se_difference__a_e", "se_symdiff__c_f", "se_ops__e_c", "se_preds__c_a"])],
        "thorough": [("km", ["se_*"])],
    },
    "C14": {
        "quick": [("km", ["eq_same__s8_4a__u", "eq_differ__s8_4a__u", "eq_differ__u__s8_8g0", "eq_transitive", "eq_submap__u8_3t__s8_4a", "eq_submap__u0__s8_4one",
                          # the read-only API itself, in the layouts where its answer could depend on the phase
                          "st_lookup__s8m0_4a", "st_lookup__s8_8g0",
                          # iteration = contents rests on the cursor agreement (I2) being preserved by the calls that touch it
                          "st_raw_replace_with__s8_8g0", "en_occ_replace_with__s8_4one",
                          # == walks one map and looks up in the other: it rests on "no key stored twice" (I3) and
                          # cursor agreement (I2) being kept by the calls that rebuild or splice tables
                          "cl_clone_from__s8_4a__s8_4a", "cl_clone__s8_8g4", "st_raw_replace_with__s8_8g0"])],
        "thorough": [("km", ["eq_*", "se_preds__*", "st_lookup__*"])],
    },
    "C16": {
        "quick": [("km-serde", ["sd_ser_map__s8_4one", "sd_ser_map__s8_8g4", "sd_ser_map__u0", "sd_ser_map__s8_e", "sd_ser_map__u8_3t", "sd_ser_set__s8_8g4",
                                "sd_de_map__n0", "sd_de_map__n2", "sd_de_set_in_place__s8_4a", "sd_de_set_in_place__s8m0_4a", "sd_de_set_in_place__u0",
                                "sd_de_set_in_place_empty__s8_4a", "sd_de_set_in_place_empty__u8_3t"]),
                  # deserialize_in_place = clear + reserve + inserts: "replaces the previous contents entirely" rests on clear()
                  ("km", ["se_clear__s8m0_4a", "se_clear__s8_8g4", "st_clear__s8m0_4a"])],
        "thorough": [("km-serde", ["sd_*"])],
    },
    "C17": {
        "quick": [("km-rel", ["st_raw_replace_with__s8_8g0", "st_insert__s4f_e", "st_remove__s8_8g0", "cap_try_reserve__s8_e", "zst_remove__old2", "it_drain__s8_4a_j1", "cl_clone_from__s8_4a__u4f"]),
                  ("km", ["st_raw_replace_with__s8_8g0", "st_insert__s4f_e", "st_remove__s8_8g0", "cap_try_reserve__s8_e", "zst_remove__old2", "it_drain__s8_4a_j1", "cl_clone_from__s8_4a__u4f"]),
                  ("km-cnt", ["cnt_try_reserve__split", "cnt_reserve__split", "cnt_insert__split_empty", "cnt_shrink_to__split"]),
                  ("km-cnt-rel", ["cnt_try_reserve__split", "cnt_reserve__split", "cnt_insert__split_empty", "cnt_shrink_to__split"])],
        "thorough": [("km-rel", ["st_*", "cap_*", "zst_*", "rt_retain__*", "en_occ_replace_with__*"]),
                     ("km", ["st_*", "cap_*", "zst_*", "rt_retain__*", "en_occ_replace_with__*"]),
                     ("km-cnt", ["cnt_*"]), ("km-cnt-rel", ["cnt_*"])],
    },
}

# The "main table empty, leftovers not" layout (right after a reserve that started a resize, or
# after removals emptied the main table) in every harness family: three independent seeds
# (r6_C11, r6_C14, r7_C12) lived in exactly this phase.
_MAIN_EMPTY_QUICK = {
    "C06": ("km", ["dr_remove__s8m0_4a"]),
    "C08": ("km", ["it_iter_mut__s8m0_4a", "it_into_iter__s8m0_4a_j1", "it_keys_values__s8m0_4a"]),
    "C09": ("km", ["rt_drain_filter__s8m0_4a_m01_j1"]),
    "C10": ("km", ["cap_shrink_to__s8m0_4a", "cap_shrink_to_fit__s8m0_4a"]),
    "C14": ("km", ["eq_same__s8m0_4a__u2"]),
    "C16": ("km-serde", ["sd_ser_map__s8m0_4a"]),
}
# HashSet::drain_filter (its own wrapper type and Drop) next to the map's
_MAIN_EMPTY_QUICK["C09"][1].extend(["se_drain_filter__s8_4a_m1100_j1", "se_drain_filter__s8m0_4a_m10_j0"])
_MAIN_EMPTY_QUICK["C13"] = ("km", ["se_drain_filter__s8_4a_m0110_end"])
for _p, (_cfg, _hs) in _MAIN_EMPTY_QUICK.items():
    for _c, _l in SUITES[_p]["quick"]:
        if _c == _cfg:
            _l.extend(h for h in _hs if h not in _l)
            break
    else:
        raise AssertionError("no %s list in the quick tier of %s" % (_cfg, _p))

PROPS = sorted(SUITES)


def seeded(prop, tier, suite, seed):
    """VERIF_SEED != 0 adds two extra harnesses of the property's thorough tier to the quick tier,
    chosen pseudo-randomly among those that took < 150 s in the last recorded thorough run
    (vlib/seed_pool.json: {property: {config: {harness: seconds}}}); seed 0 = the fixed quick set."""
    import json, os, random
    if tier != "quick" or not seed:
        return suite
    pool_file = os.path.join(os.path.dirname(os.path.abspath(__file__)), "seed_pool.json")
    if not os.path.exists(pool_file):
        return suite
    pool = json.load(open(pool_file)).get(prop, {})
    have = set((c, h) for c, hs in suite for h in hs)
    cands = sorted((c, h) for c, hs in pool.items() if c in CONFIGS for h, secs in hs.items() if secs < 150 and (c, h) not in have)
    if not cands:
        return suite
    rnd = random.Random(1000 * seed + int(prop[1:]))
    extra = rnd.sample(cands, min(2, len(cands)))
    return list(suite) + [(c, [h]) for c, h in extra]

# What each property's evidence says about itself (bounds and assumptions common to KM).
KM_ASSUMPTIONS = [
    "model fidelity: KV-lite harnesses (kani-kv, part of C05's suite) decide on the REAL hashbrown 0.14.5 (portable group) the facts the model's iterator rests on: reflect_remove-before-remove keeps the iterator exact for every cursor position and victim (16 buckets, 10 elements), reflect_insert does not undo reflect_remove for the next-to-yield bucket, replace_bucket_with restores the bucket, sizing of small tables; everything else about the model is by reading the dependency's source",
    "hashbrown is replaced by the contract model /verif/hbmodel (slots mode: <= 16 buckets per table, group width 4); griddle itself is compiled unchanged from /repo's working tree",
    "the model over-approximates placement (lowest free bucket; EMPTY-vs-tombstone choice nondeterministic) and tombstone reclamation (nondeterministic per erase); probing is abstracted: a lookup finds an equal element iff it was stored under the hash being looked up",
    "sizing arithmetic is hashbrown's own source text, extracted at check time from the registry copy named by /repo/Cargo.lock",
    "table layouts (which buckets are FULL/DELETED, cursor group) are enumerated concretely per harness; keys, values, call arguments and callback decisions are solver variables",
    "one-step induction: pre-states are arbitrary states satisfying INV (DESIGN.md 3.4); the step from 'INV preserved by every call' to 'holds after every history' is a paper argument",
    "allocation never fails; paths requesting a table above the model bound are cut (reported as bound-cut covers)",
]

BOUNDS = {
    "*": {
        "table_slots_max": 16, "model_group_width": 4, "R": "8 (km, km-rel), 4 (km-r4)",
        "keys_values": "full u8 domain unless the harness says otherwise",
        "calls_per_harness": "one public call (or one method chain) from an arbitrary INV state",
        "unwind": "34 (> 2*MAXB; Kani's unwinding assertions are on: a too-small bound fails the check)",
        "outside": "tables above 16 buckets (slots mode); number/order of Eq calls; allocator failure; keys violating Hash/Eq consistency",
    },
}


def assumptions(prop):
    return list(KM_ASSUMPTIONS)
