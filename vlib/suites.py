"""Which harnesses decide which property, per tier, and under which build configuration.

A build configuration = one `cargo kani --only-codegen` of a harness crate:
  km        griddle + contract model, slots mode, R = 8, debug assertions on   (DESIGN §3)
  km-rel    same with -C debug-assertions=off                                   (DESIGN §3.10)
  km-r4     same built with --cfg miri: the crate's own R = 4 configuration
  km-cnt    counters mode (64-bit sizes)
Harness names may be fnmatch patterns; they are resolved against the compiled crate.
"""

CONFIGS = {
    "km": dict(crate="kani-km", features=[], cfg_miri=False, rustflags=""),
    "km-rel": dict(crate="kani-km", features=[], cfg_miri=False, rustflags="-C debug-assertions=off"),
    "km-r4": dict(crate="kani-km", features=[], cfg_miri=True, rustflags=""),
    "km-cnt": dict(crate="kani-km", features=["counters"], cfg_miri=False, rustflags=""),
    "km-cnt-rel": dict(crate="kani-km", features=["counters"], cfg_miri=False, rustflags="-C debug-assertions=off"),
}

# per-harness caps (seconds, GiB)
CAPS = {"quick": (900, 12), "thorough": (3600, 16)}

# property -> tier -> list of (config, [harness patterns])
SUITES = {
    "C01": {
        "quick": [("km", ["st_insert__u4f", "st_insert__s8_4a", "st_insert__s8_e", "st_insert__s4f_e",
                          "st_remove__s8_4a", "st_remove__s8_8g0", "st_raw_replace_with__s8_8g0"])],
        "thorough": [("km", ["st_*"])],
    },
}

PROPS = sorted(SUITES)

# What each property's evidence says about itself (bounds and assumptions common to KM).
KM_ASSUMPTIONS = [
    "hashbrown is replaced by the contract model /verif/hbmodel (slots mode: <= 16 buckets per table, group width 4); griddle itself is compiled unchanged from /repo's working tree",
    "the model over-approximates placement (lowest free bucket; EMPTY-vs-tombstone choice nondeterministic) and tombstone reclamation (nondeterministic per erase); probing is abstracted: a lookup finds an equal element iff it was stored under the hash being looked up",
    "sizing arithmetic is hashbrown's own source text, extracted at check time from the registry copy named by /repo/Cargo.lock",
    "table layouts (which buckets are FULL/DELETED, cursor group) are enumerated concretely per harness; keys, values, call arguments and callback decisions are solver variables",
    "one-step induction: pre-states are arbitrary states satisfying INV (DESIGN.md 3.4); the step from 'INV preserved by every call' to 'holds after every history' is a paper argument",
    "allocation never fails; paths requesting a table above the model bound are cut (reported as bound-cut covers)",
]

BOUNDS = {
    "*": {
        "table_slots_max": 16, "model_group_width": 4, "R": "8 (km, km-rel), 4 (km-r4)",
        "keys_values": "full u8 domain unless the harness says otherwise",
        "calls_per_harness": "one public call (or one method chain) from an arbitrary INV state",
        "unwind": "34 (> 2*MAXB; Kani's unwinding assertions are on: a too-small bound fails the check)",
        "outside": "tables above 16 buckets (slots mode); number/order of Eq calls; allocator failure; keys violating Hash/Eq consistency",
    },
}


def assumptions(prop):
    return list(KM_ASSUMPTIONS)
