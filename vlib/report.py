"""Run a property's suite, classify failures, replay, write evidence, print verdict lines."""
import fnmatch, json, os, re, sys, time
from concurrent.futures import ThreadPoolExecutor

from . import runner, suites, playback

VERIF = runner.VERIF
EVID = os.environ.get("VERIF_EVIDENCE_DIR", os.path.join(VERIF, "evidence"))
REPLAY = os.environ.get("VERIF_REPLAY_DIR", os.path.join(VERIF, "replay"))
KNOWN = os.path.join(VERIF, "known_findings.json")

TAG_RE = re.compile(r"^\[(C\d\d)\]")


def classify(prop, f, harness=""):
    """-> (kind, property) where kind in violation|machinery|unwind|allowed."""
    d = f["desc"]
    # the documented capacity-overflow panic (hashbrown's message; griddle's own helper loses its
    # message under Kani because the crate is no_std) -- never acceptable from try_reserve
    if (d == "Hash table capacity overflow" or f["fn"].endswith("griddle::raw::capacity_overflow")) and "try_reserve" not in harness:
        return "allowed", prop
    m = TAG_RE.match(d)
    if m:
        return "violation", m.group(1)
    if d.startswith("[harness]") or d.startswith("[model]"):
        return "machinery", prop
    if f["class"] == "unwind" or "unwinding assertion" in d:
        return "unwind", prop
    if f["class"] == "unsupported_construct":
        return "machinery", prop
    if d.startswith("[debug-only]"):
        # a debug-only assertion stands between the program and an inconsistent state
        return "violation", "C17" if prop == "C17" else prop
    # [ghost], [panic], griddle's own assertions/unreachable!, arithmetic overflow,
    # pointer/bounds checks: the call misbehaved in a scenario this property quantifies over
    return "violation", prop


def load_known():
    if not os.path.exists(KNOWN):
        return []
    return json.load(open(KNOWN)).get("findings", [])


def known_match(known, prop, harness, desc):
    for k in known:
        if k.get("status") != "open":
            continue
        if k["property"] != prop:
            continue
        if not fnmatch.fnmatch(harness, k["harness"]):
            continue
        if k["desc_contains"] in desc:
            return k
    return None


def resolve(patterns, metas):
    names = []
    for p in patterns:
        hit = [n for n in sorted(metas) if fnmatch.fnmatch(n, p)]
        if not hit:
            raise runner.Inconclusive("suite names harness %r which the crate does not define" % p)
        for n in hit:
            if n not in names:
                names.append(n)
    return names


def run_property(prop, tier, seed, jobs, wd, only=None, keep_logs=None, t0=None):
    t0 = t0 or time.time()
    hbv = runner.extract_hb()
    suite = suites.SUITES[prop].get(tier) or suites.SUITES[prop]["quick"]
    suite = suites.seeded(prop, tier, suite, seed) if hasattr(suites, "seeded") else suite
    timeout_s, mem_gb = suites.CAPS[tier]
    if keep_logs:
        os.makedirs(keep_logs, exist_ok=True)

    # 1. compile every configuration (in parallel: each has its own target dir)
    cfgs = []
    for cfg, pats in suite:
        if cfg not in [c for c, _ in cfgs]:
            cfgs.append((cfg, []))
    built = {}

    def build(cfg):
        c = suites.CONFIGS[cfg]
        # only generate code for the harnesses this run needs (codegen time grows with the count)
        avail = {n: None for n in runner.source_harnesses(c["crate"])}
        want = []
        for cf, pats in suite:
            if cf == cfg:
                want += resolve(pats, avail)
        if only:
            want = [n for n in want if n in only.split(",")]
        filt = sorted(set(want)) if 0 < len(set(want)) <= 80 else None
        metas, secs, _ = runner.codegen(wd, c["crate"], features=c["features"], rustflags=c["rustflags"],
                                        cfg_miri=c["cfg_miri"], label=cfg, harness_filters=filt)
        return cfg, metas, secs

    with ThreadPoolExecutor(max_workers=4) as ex:
        for cfg, metas, secs in ex.map(build, [c for c, _ in cfgs]):
            built[cfg] = metas
            print("built %-8s %3d harnesses in %.0fs" % (cfg, len(metas), secs), flush=True)

    # 2. the job list
    jobsl = []
    for cfg, pats in suite:
        avail = {n: None for n in runner.source_harnesses(suites.CONFIGS[cfg]["crate"])}
        for n in resolve(pats, avail):
            if only and n not in only.split(","):
                continue
            if n not in built[cfg]:
                raise runner.Inconclusive("harness %r was not produced by the %s build (feature-gated?)" % (n, cfg))
            jobsl.append((cfg, n))
    if not jobsl:
        raise runner.Inconclusive("empty suite")

    results = []

    def one(job):
        cfg, n = job
        r = runner.run_harness(n, built[cfg][n], timeout_s, mem_gb,
                               keep_log=os.path.join(keep_logs, "%s.%s.log" % (cfg, n)) if keep_logs else None)
        r["config"] = cfg
        nf = len(r["failures"])
        print("  %-8s %-44s %-7s %6.1fs checks=%d%s" % (cfg, n, r["status"], r["wall_s"], r["checks"],
                                                        (" failed=%d" % nf) if nf else ""), flush=True)
        return r

    # expensive ones first
    with ThreadPoolExecutor(max_workers=jobs) as ex:
        results = list(ex.map(one, jobsl))

    # 3. verdicts
    known = load_known()
    violations, known_hits, inconclusive, machinery = [], [], [], []
    for r in results:
        if r["status"] in ("timeout", "oom", "error"):
            inconclusive.append((r, r.get("detail", r["status"])))
            continue
        # (a failing assertion ends the path, so the witness is only demanded of passing harnesses)
        if not r["covers"].get("reach: end of harness", False) and not r["failures"]:
            machinery.append((r, "vacuous: the end of the harness is unreachable"))
        for f in r["failures"]:
            kind, p = classify(prop, f, r["harness"])
            if kind == "violation":
                k = known_match(known, p, r["harness"], f["desc"])
                (known_hits if k else violations).append((r, f, p, k))
            elif kind == "allowed":
                pass
            elif kind == "unwind":
                inconclusive.append((r, "unwinding bound too small: " + f["desc"]))
            else:
                machinery.append((r, f["desc"]))

    # 4. replay what the solver found before reporting it
    lines = []
    rc = 0
    confirmed = 0
    by_h = {}
    wall_of = {}
    for r, f, p, _ in violations:
        by_h.setdefault((r["config"], r["harness"]), []).append((f, p))
        wall_of[(r["config"], r["harness"])] = r["wall_s"]
    # replay the cheapest failing harnesses (Kani's playback generation re-runs the slow driver)
    max_replay = int(os.environ.get("VERIF_MAX_REPLAY", "2"))
    order = sorted(by_h, key=lambda k: wall_of[k])
    chosen, skipped = order[:max_replay], order[max_replay:]

    def do_replay(key):
        cfg, h = key
        c = suites.CONFIGS[cfg]
        path = os.path.join(REPLAY, "%s__%s__%s.json" % (prop, cfg, h))
        ok, info = playback.replay(wd, cfg, c, h, by_h[key], path, pretty=built[cfg][h]["pretty"])
        return key, ok, info, path

    with ThreadPoolExecutor(max_workers=max(1, len(chosen))) as ex:
        replays = list(ex.map(do_replay, chosen))
    for (cfg, h), ok, info, path in replays:
        fl = by_h[(cfg, h)]
        # the tagged property, and the property being checked (its suite lists this harness as
        # one of the obligations it rests on, e.g. preservation of the cursor invariant)
        props = sorted(set(p for _, p in fl) | {prop})
        if ok:
            confirmed += 1
            for p in props:
                lines.append("VIOLATION property=%s replay=%s" % (p, path))
            for f, p in fl[:3]:
                lines.append("  failed: [%s/%s] %s" % (cfg, h, f["desc"][:200]))
            rc = 1
        else:
            lines.append("UNCONFIRMED property=%s harness=%s: solver counterexample did not reproduce natively (%s)" % (",".join(props), h, info))
            if rc == 0:
                rc = 2
    for (cfg, h) in skipped:
        fl = by_h[(cfg, h)]
        lines.append("ALSO-FAILING (not replayed) property=%s harness=%s/%s: %s" % (",".join(sorted(set(p for _, p in fl))), cfg, h, fl[0][0]["desc"][:160]))
    for r, f, p, k in known_hits:
        lines.append("KNOWN-FINDING: property=%s %s" % (p, k["what"]))
    for r, why in machinery:
        lines.append("INCONCLUSIVE property=%s harness=%s: %s" % (prop, r["harness"], why))
        if rc == 0:
            rc = 2
    for r, why in inconclusive:
        lines.append("INCONCLUSIVE property=%s harness=%s: %s" % (prop, r["harness"], str(why)[:300]))
        if rc == 0:
            rc = 2

    write_evidence(prop, tier, seed, results, violations, known_hits, confirmed, hbv, time.time() - t0, suite)
    for l in sorted(set(lines)):
        print(l)
    npass = sum(1 for r in results if r["status"] == "pass")
    print("property=%s tier=%s harnesses=%d passed=%d violations=%d inconclusive=%d wall=%.0fs -> exit %d" % (
        prop, tier, len(results), npass, len(by_h), len(inconclusive) + len(machinery), time.time() - t0, rc))
    return rc


def write_evidence(prop, tier, seed, results, violations, known_hits, confirmed, hbv, wall, suite):
    os.makedirs(EVID, exist_ok=True)
    fns = sorted(set(fn for r in results for fn in r.get("fns", [])))
    cls = set()
    for r in results:
        for c, sat in r["covers"].items():
            if sat and c.startswith("cls:"):
                cls.add((r.get("config"), r["harness"], c))
    bound_cuts = sorted(r["harness"] for r in results if any(sat and c.startswith("[bound-cut]") for c, sat in r["covers"].items()))
    samples = []
    for r in results[:40]:
        samples.append({
            "harness": r["harness"], "config": r.get("config"), "status": r["status"], "wall_s": r["wall_s"],
            "checks": r["checks"], "vccs": r.get("vccs"), "sat_vars": r.get("sat_vars"), "sat_clauses": r.get("sat_clauses"),
            "symex_s": r.get("symex_s"), "solver_s": r.get("solver_s"),
            "classes_covered": sorted(c for c, s in r["covers"].items() if s and c.startswith("cls:")),
            "failed": [f["desc"] for f in r["failures"]][:5],
        })
    ev = {
        "property_id": prop,
        "tier": tier,
        "seed": seed,
        "level": "model_checking",
        "coverage": {
            # model_checking keys: a "state" here is a symbolic pre-state class (one concrete table-pair
            # layout with all contents symbolic), a "transition" one (layout class, call) harness
            "states": len(set((r.get("config"), r["harness"].split("__", 1)[-1]) for r in results)),
            "transitions": len(results),
            "traces_validated_against_impl": confirmed,
            "evaluations": len(results),
            "distinct_nontrivial": len(cls),
            "rule": "one evaluation = one Kani harness (concrete table-pair layout; symbolic contents, arguments, callback decisions) discharged by CBMC for all values; distinct_nontrivial = number of distinct (build configuration, harness, behaviour class) triples whose kani::cover! was SATISFIED in this run (e.g. 'insert grew the table', 'removed an old-table element')",
            "samples": samples,
            "exhaustive": False,
            "technique": "bounded model checking of the compiled code (Kani 0.68 -> CBMC 6.11, CaDiCaL); verdict per harness is the solver's over all symbolic values within the bounds",
            "functions_encoded": fns,
            "bounds": suites.BOUNDS.get(prop, suites.BOUNDS["*"]),
            "queries_discharged": sum(r["checks"] for r in results),
            "vccs": sum(r.get("vccs") or 0 for r in results),
            "solver_time_s": round(sum(r.get("solver_s") or 0 for r in results), 1),
            "symex_time_s": round(sum(r.get("symex_s") or 0 for r in results), 1),
            "harnesses_passed": sum(1 for r in results if r["status"] == "pass"),
            "harnesses_failed": sum(1 for r in results if r["status"] == "fail"),
            "harnesses_inconclusive": sum(1 for r in results if r["status"] not in ("pass", "fail")),
            "paths_cut_at_model_bound_in": bound_cuts,
            "counterexamples_replayed_natively": confirmed,
            "known_findings_seen": sorted(set(k["what"] for _, _, _, k in known_hits)),
            "hashbrown_version_modelled": hbv,
            "configs": sorted(set(c for c, _ in suite)),
        },
        "assumptions": suites.assumptions(prop),
        "wall_s": round(wall, 1),
        "violations": len(set((r["harness"]) for r, _, _, _ in violations)),
    }
    tmp = os.path.join(EVID, "%s.json.tmp%d" % (prop, os.getpid()))
    with open(tmp, "w") as f:
        json.dump(ev, f, indent=1)
    os.replace(tmp, os.path.join(EVID, "%s.json" % prop))


def replay_file(path):
    d = json.load(open(path))
    print(json.dumps({k: d[k] for k in d if k != "test_source"}, indent=1))
    return playback.rerun(d)
