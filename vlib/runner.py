"""Build griddle (from /repo's working tree) + harness crate with Kani's compiler, then
discharge each harness with CBMC directly and parse the per-property verdicts.

Why not Kani's own driver for the CBMC step: measured here, kani-driver spends 4-5x CBMC's
own run time post-processing CBMC's JSON stream (75 s of CBMC became 330-420 s).  The goto
program, the instrumentation passes and the CBMC flags are exactly the ones kani-driver
uses (they are printed by `cargo kani --verbose`); only the result parsing is ours.
"""
import json, os, re, resource, shutil, subprocess, sys, time, glob
from concurrent.futures import ThreadPoolExecutor

VERIF = os.path.dirname(os.path.dirname(os.path.abspath(__file__)))
REPO = os.environ.get("VERIF_REPO", "/repo")
KANI_HOME = os.path.expanduser("~/.kani/kani-0.68.0")
KANI_LIB_C = os.path.join(KANI_HOME, "library/kani/kani_lib.c")

CBMC_FLAGS = ["--no-malloc-may-fail", "--no-undefined-shift-check", "--no-signed-overflow-check",
              "--nan-check", "--no-self-loops-to-assumptions", "--no-pointer-primitive-check",
              "--object-bits", "16", "--sat-solver", "cadical", "--slice-formula"]

RESULT_RE = re.compile(r"^\[(?P<id>.+?)\] line (?P<line>\d+) (?P<desc>.*): (?P<st>SUCCESS|FAILURE|UNKNOWN|ERROR)$")
RESULT_RE2 = re.compile(r"^\[(?P<id>.+?)\] (?P<desc>.*): (?P<st>SUCCESS|FAILURE|UNKNOWN|ERROR)$")


class Workdir:
    """Scratch copy of the harness crates + own target dir; removed on exit."""

    def __init__(self, tag):
        self.path = os.path.join(os.environ.get("VERIF_WORK", os.path.join(VERIF, ".work")), "%s-%d" % (tag, os.getpid()))
        shutil.rmtree(self.path, ignore_errors=True)
        os.makedirs(self.path)

    def cleanup(self):
        shutil.rmtree(self.path, ignore_errors=True)
        try:
            os.rmdir(os.path.join(VERIF, ".work"))
        except OSError:
            pass


def sh(cmd, **kw):
    return subprocess.run(cmd, stdout=subprocess.PIPE, stderr=subprocess.STDOUT, text=True, **kw)


def extract_hb():
    r = sh([sys.executable, os.path.join(VERIF, "tools/extract_hb.py")])
    if r.returncode != 0:
        raise Inconclusive("hashbrown text extraction failed: " + r.stdout.strip())
    return r.stdout.strip()


class Inconclusive(Exception):
    pass


def codegen(wd, crate, features=(), rustflags="", harness_filters=None, cfg_miri=False, label="b"):
    """cargo kani --only-codegen on a scratch copy of <crate>; returns {pretty_name: meta}."""
    src = os.path.join(VERIF, crate)
    dst = os.path.join(wd.path, label, crate)
    os.makedirs(os.path.dirname(dst), exist_ok=True)
    shutil.copytree(src, dst, ignore=shutil.ignore_patterns("target", "Cargo.lock"))
    # sibling model crate (path = "../hbmodel")
    hb = os.path.join(wd.path, label, "hbmodel")
    if not os.path.exists(hb):
        shutil.copytree(os.path.join(VERIF, "hbmodel"), hb, ignore=shutil.ignore_patterns("target", "Cargo.lock"))
    lock = os.path.join(REPO, "Cargo.lock")
    if os.path.exists(lock):
        shutil.copy(lock, os.path.join(dst, "Cargo.lock"))
    if REPO != "/repo":
        ct = os.path.join(dst, "Cargo.toml")
        txt = open(ct).read().replace('path = "/repo"', 'path = "%s"' % REPO)
        open(ct, "w").write(txt)
    tdir = os.path.join(wd.path, label, "target")
    env = dict(os.environ)
    env["CARGO_NET_OFFLINE"] = "true"
    rf = rustflags
    if cfg_miri:
        rf = (rf + " --cfg miri").strip()
    if rf:
        env["RUSTFLAGS"] = rf
    cmd = ["cargo", "kani", "--only-codegen", "--no-assertion-reach-checks", "--target-dir", tdir]
    if features:
        cmd += ["--features", ",".join(features)]
    for h in harness_filters or []:
        cmd += ["--harness", h]
    t0 = time.time()
    r = sh(cmd, cwd=dst, env=env)
    if r.returncode != 0:
        raise Inconclusive("kani codegen failed (%s):\n%s" % (" ".join(cmd), r.stdout[-4000:]))
    metas = glob.glob(os.path.join(tdir, "kani", "**", "*.kani-metadata.json"), recursive=True)
    out = {}
    for mf in metas:
        d = json.load(open(mf))
        if d.get("crate_name", "").replace("-", "_") != crate.replace("-", "_"):
            continue
        for h in d["proof_harnesses"]:
            out[h["pretty_name"].split("::")[-1]] = {
                "pretty": h["pretty_name"], "mangled": h["mangled_name"], "goto": h["goto_file"],
                "unwind": h["attributes"].get("unwind_value"), "file": h["original_file"],
                "line": h["original_start_line"],
            }
    return out, time.time() - t0, r.stdout


def source_harnesses(crate):
    """harness names defined in the crate's sources (macro invocations and plain proofs)"""
    names = []
    for fn in sorted(glob.glob(os.path.join(VERIF, crate, "src", "*.rs"))):
        src = open(fn).read()
        names += re.findall(r"^\s*harness\w*!\(\s*(\w+)\s*,", src, re.M)
        names += re.findall(r"#\[kani::proof\]\s*(?:#\[[^\]]*\]\s*)*fn (\w+)\(", src)
    return sorted(set(names))


def _limit(mem_gb):
    def f():
        lim = int(mem_gb * (1 << 30))
        resource.setrlimit(resource.RLIMIT_AS, (lim, lim))
    return f


def run_harness(name, meta, timeout_s, mem_gb, keep_log=None, extra_cbmc=()):
    """goto-cc / goto-instrument / cbmc exactly as kani-driver does; returns a result dict."""
    t0 = time.time()
    sym = meta["goto"]
    out = sym[:-len(".symtab.out")] + ".run.out"
    res = {"harness": name, "status": "error", "failures": [], "covers": {}, "checks": 0, "wall_s": 0.0}
    steps = [
        ["goto-cc", sym, KANI_LIB_C, "-o", out],
        ["goto-cc", out, "--function", meta["mangled"], "-o", out],
        ["goto-instrument", "--add-library", "--no-malloc-may-fail", out, out],
        ["goto-instrument", "--generate-function-body-options", "assert-false-assume-false",
         "--generate-function-body", ".*", "--drop-unused-functions", out, out],
        ["goto-instrument", "--ensure-one-backedge-per-target", out, out],
    ]
    for st in steps:
        r = sh(st)
        if r.returncode != 0:
            res["detail"] = "step failed: %s\n%s" % (" ".join(st[:2]), r.stdout[-2000:])
            res["wall_s"] = time.time() - t0
            return res
    cmd = ["cbmc"] + CBMC_FLAGS + list(extra_cbmc)
    if meta.get("unwind"):
        cmd += ["--unwind", str(meta["unwind"])]
    cmd += [out, "--verbosity", "8"]
    try:
        p = subprocess.run(cmd, stdout=subprocess.PIPE, stderr=subprocess.STDOUT, text=True,
                           timeout=timeout_s, preexec_fn=_limit(mem_gb))
        txt = p.stdout
        rc = p.returncode
    except subprocess.TimeoutExpired as e:
        res["status"] = "timeout"
        res["wall_s"] = time.time() - t0
        res["detail"] = "cbmc exceeded %ds" % timeout_s
        return res
    finally:
        try:
            os.remove(out)
        except OSError:
            pass
    if keep_log:
        with open(keep_log, "w") as f:
            f.write(txt)
    res["wall_s"] = round(time.time() - t0, 1)
    parse_cbmc(txt, rc, res)
    return res


def strip_generics(s):
    """`a::B::<T>::f::<{closure@..}>` -> `a::B::f`"""
    out, depth = [], 0
    for ch in s:
        if ch == "<":
            depth += 1
        elif ch == ">":
            depth -= 1
        elif depth == 0:
            out.append(ch)
    r = "".join(out)
    r = re.sub(r"::\{closure#\d+\}", "", r)
    while "::::" in r:
        r = r.replace("::::", "::")
    return r.strip(":")


def parse_cbmc(txt, rc, res):
    fails, covers = [], {}
    fns = set()
    nchecks = 0
    in_results = False
    for line in txt.splitlines():
        if line.startswith("** Results:"):
            in_results = True
            continue
        m = re.match(r"^Runtime Symex: ([0-9.]+)s", line)
        if m:
            res["symex_s"] = float(m.group(1))
        m = re.match(r"^Runtime decision procedure: ([0-9.]+)s", line)
        if m:
            res["solver_s"] = round(res.get("solver_s", 0.0) + float(m.group(1)), 3)
        m = re.match(r"^(\d+) variables, (\d+) clauses", line)
        if m:
            res["sat_vars"], res["sat_clauses"] = int(m.group(1)), int(m.group(2))
        m = re.match(r"^Generated (\d+) VCC\(s\), (\d+) remaining after simplification", line)
        if m:
            res["vccs"], res["vccs_remaining"] = int(m.group(1)), int(m.group(2))
        if not in_results:
            continue
        m = RESULT_RE.match(line) or RESULT_RE2.match(line)
        if not m:
            continue
        pid, desc, st = m.group("id"), m.group("desc"), m.group("st")
        parts = pid.rsplit(".", 2)
        cls = parts[1] if len(parts) == 3 else "other"
        desc = re.sub(r"\[?KANI_CHECK_ID_[^\s\]]*\]?:?\s*", "", desc).strip().strip('"')
        if cls == "reachability_check":
            continue
        fn = strip_generics(parts[0])
        if fn.startswith("griddle::"):
            fns.add(fn)
        if cls == "cover":
            # Kani encodes cover!(c) as assert(!c): FAILURE == satisfied
            covers[desc] = covers.get(desc, False) or (st == "FAILURE")
            continue
        nchecks += 1
        if st != "SUCCESS":
            fails.append({"id": pid, "class": cls, "line": int(m.groupdict().get("line") or 0),
                          "desc": desc, "cbmc": st, "fn": parts[0]})
    res["checks"] = nchecks
    res["fns"] = sorted(fns)
    res["covers"] = covers
    res["failures"] = fails
    if "ran out of memory" in txt or "std::bad_alloc" in txt:
        res["status"] = "oom"
        res["detail"] = "CBMC's solver ran out of memory under the per-harness cap"
        res["failures"] = [f for f in fails if f["cbmc"] == "FAILURE"]
        return res
    if "VERIFICATION SUCCESSFUL" in txt and not fails:
        res["status"] = "pass"
    elif "VERIFICATION FAILED" in txt:
        # covers being "FAILURE" also yields VERIFICATION FAILED in raw CBMC
        res["status"] = "fail" if fails else "pass"
    else:
        res["status"] = "oom" if ("std::bad_alloc" in txt or "Out of memory" in txt or rc in (-9, 137, -6, 134)) else "error"
        res["detail"] = txt[-1500:]
    return res


def run_all(metas, names, timeout_s, mem_gb, jobs, logdir=None, progress=None):
    results = {}

    def one(n):
        if n not in metas:
            return {"harness": n, "status": "error", "detail": "harness not found in the compiled crate",
                    "failures": [], "covers": {}, "checks": 0, "wall_s": 0}
        r = run_harness(n, metas[n], timeout_s, mem_gb,
                        keep_log=os.path.join(logdir, n + ".log") if logdir else None)
        if progress:
            progress(r)
        return r

    with ThreadPoolExecutor(max_workers=jobs) as ex:
        for r in ex.map(one, names):
            results[r["harness"]] = r
    return results
