"""Replay a solver counterexample natively before it is reported (DESIGN.md §3.7).

Kani's concrete playback turns CBMC's satisfying assignment into a unit test that feeds
the same values to `kani::any()`; `cargo kani playback` then runs the harness as an
ordinary native test: griddle's real code (from /repo), compiled by rustc, executing the
failing call on the concrete state. Only a natively failing test counts as confirmed.
"""
import json, os, re, shutil, subprocess, time

from . import runner

VERIF = runner.VERIF


def _env(c):
    env = dict(os.environ)
    env["CARGO_NET_OFFLINE"] = "true"
    rf = c.get("rustflags", "")
    if c.get("cfg_miri"):
        rf = (rf + " --cfg miri").strip()
    if rf:
        env["RUSTFLAGS"] = rf
    else:
        env.pop("RUSTFLAGS", None)
    return env


def _crate_copy(wd, label, c):
    """fresh scratch copy of the harness crate (+ model) for in-place playback"""
    base = os.path.join(wd.path, label)
    shutil.rmtree(base, ignore_errors=True)
    os.makedirs(base)
    for cr in (c["crate"], "hbmodel"):
        shutil.copytree(os.path.join(VERIF, cr), os.path.join(base, cr),
                        ignore=shutil.ignore_patterns("target", "Cargo.lock"))
    lock = os.path.join(runner.REPO, "Cargo.lock")
    if os.path.exists(lock):
        shutil.copy(lock, os.path.join(base, c["crate"], "Cargo.lock"))
    if runner.REPO != "/repo":
        ct = os.path.join(base, c["crate"], "Cargo.toml")
        txt = open(ct).read().replace('path = "/repo"', 'path = "%s"' % runner.REPO)
        open(ct, "w").write(txt)
    return os.path.join(base, c["crate"])


def _run_tests(crate_dir, c, test_filter):
    cmd = ["cargo", "kani", "playback", "-Z", "concrete-playback"]
    if c.get("features"):
        cmd += ["--features", ",".join(c["features"])]
    cmd += ["--", test_filter]
    r = runner.sh(cmd, cwd=crate_dir, env=_env(c), timeout=1800)
    out = r.stdout
    failed = re.findall(r"^test (\S*kani_concrete_playback_\S+) \.\.\. FAILED", out, re.M)
    passed = re.findall(r"^test (\S*kani_concrete_playback_\S+) \.\.\. ok", out, re.M)
    panics = re.findall(r"panicked at [^\n]*\n([^\n]*)", out)
    # a non-unwinding panic (e.g. the UB check of unreachable_unchecked, a panic inside a Drop
    # during unwinding) aborts the test process: libtest prints no verdict line, cargo reports
    # the signal. That is a native failure of the replayed test, not a pass.
    ab = re.search(r"\(signal: \d+, (SIG[A-Z]+)[^)]*\)", out)
    if ab and not failed:
        running = re.findall(r"^test (\S*kani_concrete_playback_\S+) \.\.\. *$", out, re.M)
        failed = [(running[-1] if running else "kani_concrete_playback") + " <process aborted: %s>" % ab.group(1)]
    return failed, passed, panics, out


def replay(wd, cfg, c, harness, failures, path, pretty=None):
    """-> (confirmed?, info). Writes the replay file at `path`."""
    os.makedirs(os.path.dirname(path), exist_ok=True)
    t0 = time.time()
    crate_dir = _crate_copy(wd, "pb-" + cfg + "-" + harness[:40], c)
    cmd = ["cargo", "kani", "-Z", "concrete-playback", "--concrete-playback=print",
           "--no-assertion-reach-checks", "--harness", pretty or harness, "--exact"]
    if c.get("features"):
        cmd += ["--features", ",".join(c["features"])]
    try:
        r = runner.sh(cmd, cwd=crate_dir, env=_env(c), timeout=3600)
    except subprocess.TimeoutExpired:
        return False, "concrete playback generation timed out"
    # collect the generated tests (one per failed check; tests for satisfied covers are skipped)
    modfile = os.path.join("src", (pretty or harness).split("::")[0] + ".rs") if pretty and "::" in pretty else "src/lib.rs"
    tests = {}
    for blk in re.findall(r"Concrete playback unit test for `[^`]*`:\n```\n(.*?)```", r.stdout, re.S):
        chk = re.search(r"/// Check for `(\w+)`: (.*)", blk)
        if chk and chk.group(1) == "cover":
            continue
        m = re.search(r"#\[test\]\nfn (kani_concrete_playback_\w+)\(\) \{.*?\n\}\n", blk, re.S)
        if m:
            tests[m.group(1)] = {"file": modfile, "source": m.group(0), "check": chk.group(2) if chk else ""}
    for name, t in tests.items():
        with open(os.path.join(crate_dir, t["file"]), "a") as f:
            f.write("\n" + t["source"])
    rec = {
        "property_failures": [{"property": p, "desc": f["desc"], "in": f["fn"], "line": f["line"], "class": f["class"]} for f, p in failures],
        "harness": harness, "config": cfg, "build": c,
        "how": "cargo kani -Z concrete-playback --concrete-playback=print --harness %s ; append the printed tests to the harness module; cargo kani playback -Z concrete-playback -- kani_concrete_playback (or: ./check.py %s --replay <this file>)" % (harness, failures[0][1] if failures else "Cxx"),
        "tests": tests,
    }
    if not tests:
        rec["native"] = "no concrete playback test was generated"
        rec["kani_tail"] = r.stdout[-3000:]
        json.dump(rec, open(path, "w"), indent=1)
        return False, "no playback test generated"
    failed, passed, panics, out = _run_tests(crate_dir, c, "kani_concrete_playback")
    rec["native"] = {"failed_tests": failed, "passed_tests": passed, "panic_messages": panics[:10],
                     "profile": "dev", "wall_s": round(time.time() - t0, 1)}
    if not failed and not passed:
        rec["native"]["tail"] = out[-3000:]
    json.dump(rec, open(path, "w"), indent=1)
    if failed:
        return True, "%d native test(s) fail: %s" % (len(failed), "; ".join(panics[:2]))
    return False, "generated tests pass natively"


def rerun(d):
    """check.py --replay FILE: rebuild the scratch crate, re-insert the recorded tests, run them."""
    wd = runner.Workdir("replay")
    try:
        runner.extract_hb()
        c = d["build"]
        crate_dir = _crate_copy(wd, "pb", c)
        # the extracted sizing text lives in /verif/hbmodel/src (copied above)
        for name, t in d["tests"].items():
            p = os.path.join(crate_dir, t["file"])
            with open(p, "a") as f:
                f.write("\n" + t["source"])
        failed, passed, panics, out = _run_tests(crate_dir, c, "kani_concrete_playback")
        print("native replay: failed=%s passed=%s" % (failed, passed))
        for pm in panics[:10]:
            print("  panic:", pm)
        if failed:
            for pf in d["property_failures"]:
                print("VIOLATION property=%s replay=%s" % (pf["property"], "(this file)"))
            return 1
        if not passed:
            print(out[-3000:])
            return 2
        return 0
    finally:
        wd.cleanup()
