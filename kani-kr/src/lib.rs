//! KR-lite: bounded scenarios on the real unsafe code. A concrete prefix builds a map that is
//! mid-resize (8 inserts at R = 4: 5 elements in the new table, 3 in the old one); then one
//! call with a symbolic key runs on the real hashbrown with CBMC's pointer checks on, and the
//! public API is checked for consistency afterwards.
#![allow(non_snake_case, dead_code)]
#[cfg(kani)]
mod kr {
    use core::hash::{BuildHasher, Hasher};
    use griddle::hash_map::RawEntryMut;
    use griddle::HashMap;

    #[derive(Clone, Default)]
    pub struct Id;
    pub struct IdH(u64);
    impl Hasher for IdH {
        fn finish(&self) -> u64 {
            self.0
        }
        fn write(&mut self, b: &[u8]) {
            if !b.is_empty() {
                self.0 = b[0] as u64;
            }
        }
        fn write_u8(&mut self, b: u8) {
            self.0 = (b as u64).wrapping_mul(0x9E37_79B9_7F4A_7C15);
        }
    }
    impl BuildHasher for Id {
        type Hasher = IdH;
        fn build_hasher(&self) -> IdH {
            IdH(0)
        }
    }
    type M = HashMap<u8, u8, Id>;

    fn split_map() -> M {
        let mut m = M::with_hasher(Id);
        let mut i = 0u8;
        while i < 8 {
            m.insert(i, i);
            i += 1;
        }
        m
    }
    fn consistent(m: &M, q: u8, want: Option<u8>) {
        assert!(m.get(&q).copied() == want, "[KR] get() wrong after the call");
        let mut n = 0;
        let mut seen = 0;
        for (k, v) in m.iter() {
            if *k == q {
                seen += 1;
                assert!(Some(*v) == want);
            }
            n += 1;
        }
        assert!(n == m.len(), "[KR] iter() yields a number of elements different from len() (stale cached iterator)");
        assert!(seen == if want.is_some() { 1 } else { 0 }, "[KR] iter() and get() disagree");
        if let Some((ot, it)) = m.verif_parts().1 {
            assert!(it.len() == ot.len(), "[KR] the cached old-table iterator's count differs from the old table's length");
        }
    }

    #[kani::proof]
    #[kani::unwind(12)]
    fn kr_split_prefix_is_split() {
        let m = split_map();
        assert!(m.len() == 8);
        assert!(m.verif_parts().1.is_some(), "[KR] prefix did not produce a mid-resize map");
        kani::cover!(true, "reach: end of harness");
        core::mem::forget(m);
    }

    #[kani::proof]
    #[kani::unwind(12)]
    fn kr_remove_symbolic_key() {
        let mut m = split_map();
        let k: u8 = kani::any();
        kani::assume(k < 10);
        let q: u8 = kani::any();
        kani::assume(q < 10);
        let r = m.remove(&k);
        assert!(r == if k < 8 { Some(k) } else { None }, "[KR] remove returned a wrong value");
        consistent(&m, q, if q < 8 && q != k { Some(q) } else { None });
        kani::cover!(true, "reach: end of harness");
        core::mem::forget(m);
    }

    #[kani::proof]
    #[kani::unwind(12)]
    fn kr_raw_replace_entry_with() {
        let mut m = split_map();
        let k: u8 = kani::any();
        kani::assume(k < 8);
        let ret: Option<u8> = kani::any();
        if let RawEntryMut::Occupied(e) = m.raw_entry_mut().from_key(&k) {
            let _ = e.replace_entry_with(|_, _| ret);
        }
        consistent(&m, k, ret);
        kani::cover!(true, "reach: end of harness");
        core::mem::forget(m);
    }
}
