use griddle::hash_map::Entry;
use griddle::{HashMap, HashSet};
use std::collections::hash_map::RandomState;
use std::panic::{catch_unwind, AssertUnwindSafe};

type M = HashMap<u64, u64, RandomState>;

fn split_len(m: &M) -> Option<usize> {
    m.verif_parts().1.map(|(t, _)| t.len())
}
fn in_old(m: &M, k: u64) -> bool {
    match m.verif_parts().1 {
        Some((t, _)) => unsafe { t.iter().any(|b| b.as_ref().0 == k) },
        None => false,
    }
}
fn consistent(m: &M) -> Result<(), String> {
    if m.iter().len() != m.len() {
        return Err(format!("iter().len() = {} but len() = {}", m.iter().len(), m.len()));
    }
    if let Some((t, it)) = m.verif_parts().1 {
        if it.len() != t.len() {
            return Err(format!("cached iterator counts {} but the old table holds {}", it.len(), t.len()));
        }
    }
    Ok(())
}

fn d1() -> Result<(), String> {
    // 15 inserts; retain away the whole old table, leaving the main table exactly full after shrink_to_fit; insert
    for keep in [3usize, 7, 14] {
        let mut m = M::default();
        for i in 0..15 {
            m.insert(i, i);
        }
        if split_len(&m).is_none() {
            return Err("no split state after 15 inserts".into());
        }
        let old: Vec<u64> = (0..15).filter(|k| in_old(&m, *k)).collect();
        let mut kept = 0;
        m.retain(|k, _| {
            if old.contains(k) {
                false
            } else if kept < keep {
                kept += 1;
                true
            } else {
                false
            }
        });
        m.shrink_to_fit();
        let r = catch_unwind(AssertUnwindSafe(|| {
            m.insert(1000, 0);
        }));
        if r.is_err() {
            return Err(format!("insert panicked after retain (kept {}) + shrink_to_fit", kept));
        }
    }
    Ok(())
}

fn d2() -> Result<(), String> {
    let r = catch_unwind(|| {
        let mut s: HashSet<(), RandomState> = HashSet::default();
        s.insert(());
        s.reserve(10);
        let was = s.remove(&());
        (was, s.len())
    });
    match r {
        Ok((true, 0)) => Ok(()),
        Ok(x) => Err(format!("HashSet<()>: remove after reserve gave {:?}", x)),
        Err(_) => Err("HashSet<()>: insert; reserve(10); remove panicked".into()),
    }
}

fn d3() -> Result<(), String> {
    let mut m = M::default();
    for i in 0..15 {
        m.insert(i, i);
    }
    let k = (0..15).find(|k| in_old(&m, *k)).ok_or("no old-table element")?;
    let _ = catch_unwind(AssertUnwindSafe(|| {
        if let Entry::Occupied(e) = m.entry(k) {
            let _ = e.replace_entry_with(|_, _| panic!("user closure panics"));
        }
    }));
    consistent(&m)?;
    // the map must still be usable
    let r = catch_unwind(AssertUnwindSafe(|| {
        for i in 100..140 {
            m.insert(i, i);
        }
    }));
    r.map_err(|_| "inserts after the caught panic panicked".to_string())?;
    consistent(&m)
}

fn d4() -> Result<(), String> {
    let mut m = M::default();
    for i in 0..15 {
        m.insert(i, i);
    }
    let cap = m.capacity();
    let r = catch_unwind(AssertUnwindSafe(|| m.try_reserve(usize::MAX)));
    match r {
        Err(_) => return Err("try_reserve(usize::MAX) panicked instead of returning Err".into()),
        Ok(Ok(())) => return Err(format!("try_reserve(usize::MAX) returned Ok(()) with capacity {} -> {}", cap, m.capacity())),
        Ok(Err(_)) => {}
    }
    let mut m2 = M::default();
    for i in 0..15 {
        m2.insert(i, i);
    }
    let r = catch_unwind(AssertUnwindSafe(|| m2.reserve(usize::MAX)));
    match r {
        Ok(()) => Err("reserve(usize::MAX) returned normally".into()),
        Err(e) => {
            let msg = e.downcast_ref::<&str>().map(|s| s.to_string()).or_else(|| e.downcast_ref::<String>().cloned()).unwrap_or_default();
            if msg.contains("capacity overflow") {
                Ok(())
            } else {
                Err(format!("reserve(usize::MAX) panicked with {:?} (an arithmetic panic exists only in debug builds)", msg))
            }
        }
    }
}

fn d5() -> Result<(), String> {
    let mut m = M::default();
    for i in 0..29 {
        m.insert(i, i);
    }
    let olds: Vec<u64> = (0..29).filter(|k| in_old(&m, *k)).collect();
    if olds.is_empty() {
        return Err("no old-table element after 29 inserts".into());
    }
    for k in olds {
        let n = m.len();
        let r = catch_unwind(AssertUnwindSafe(|| {
            if let Entry::Occupied(e) = m.entry(k) {
                let _ = e.replace_entry_with(|_, _| None);
            }
        }));
        if r.is_err() {
            return Err(format!("replace_entry_with(None) on old-table key {} panicked", k));
        }
        if m.len() != n - 1 || m.contains_key(&k) {
            return Err("replace_entry_with(None) did not remove the element".into());
        }
        consistent(&m)?;
    }
    for i in 100..200 {
        m.insert(i, i);
    }
    consistent(&m)
}

fn main() {
    std::panic::set_hook(Box::new(|_| {}));
    let which = std::env::args().nth(1).unwrap_or_else(|| "all".into());
    let all: [(&str, fn() -> Result<(), String>); 5] = [("d1", d1), ("d2", d2), ("d3", d3), ("d4", d4), ("d5", d5)];
    let mut bad = 0;
    for (n, f) in all {
        if which == "all" || which == n {
            match f() {
                Ok(()) => println!("{}: absent", n),
                Err(e) => {
                    println!("{}: PRESENT: {}", n, e);
                    bad += 1;
                }
            }
        }
    }
    std::process::exit(if bad > 0 { 1 } else { 0 });
}
