//! Slots mode: a table is one allocation of `MAXB` typed slots. See lib.rs / DESIGN.md §3.2.
use super::verif::*;
use super::*;
use core::marker::PhantomData;
use core::mem::{self, MaybeUninit};
use core::ptr::NonNull;

/// Table storage pointer. Deliberately a plain `*const` (covariant in `T` like `NonNull`, but
/// *without* a null niche): with a niche, `Option<RawIter>` / `Option<OldTable>` in griddle are
/// encoded by Kani through the pointer field and CBMC loses constant propagation for every
/// update made through `Option::as_mut()` (measured: a 4-element split-map iteration was
/// unwound to the bound instead of 4 times).
#[derive(Debug)]
pub struct P<T>(*const T);
impl<T> Clone for P<T> {
    #[inline(always)]
    fn clone(&self) -> Self {
        P(self.0)
    }
}
impl<T> Copy for P<T> {}
impl<T> PartialEq for P<T> {
    #[inline(always)]
    fn eq(&self, o: &Self) -> bool {
        self.0 == o.0
    }
}
impl<T> P<T> {
    #[inline(always)]
    pub const fn dangling() -> Self {
        P(core::ptr::null())
    }
    #[inline(always)]
    pub fn as_ptr(self) -> *mut T {
        self.0 as *mut T
    }
}
#[inline(always)]
fn nn<T>(p: *mut T) -> P<T> {
    P(p as *const T)
}

/// Model group width (the real one is 16 with SSE2, 8 portable). 4 gives an 8- or 16-slot
/// table several groups, so every "before / in / after the cursor's group" case exists.
pub const W: usize = 4;
/// Physical slots per table: the model's size bound.
#[cfg(not(feature = "maxb32"))]
pub const MAXB: usize = 16;
#[cfg(feature = "maxb32")]
pub const MAXB: usize = 32;


pub struct Slot<T> {
    /// is the bucket FULL? (kept apart from tombstone accounting so that the control flow of
    /// iteration stays concrete when the layout is concrete, see `tombs` below)
    full: bool,
    /// hash the element was stored under (stands for the control byte's h2 and the probe start)
    hash: u64,
    val: MaybeUninit<T>,
}

pub struct InsertSlot {
    index: usize,
}

pub struct Bucket<T> {
    slot: P<Slot<T>>,
    /// bucket index, carried along so that no pointer arithmetic (which CBMC does not
    /// constant-fold) is needed to get from a bucket back to its position
    index: usize,
}
impl<T> Clone for Bucket<T> {
    #[inline]
    fn clone(&self) -> Self {
        Bucket { slot: self.slot, index: self.index }
    }
}
unsafe impl<T> Send for Bucket<T> {}
impl<T> Bucket<T> {
    #[inline]
    pub unsafe fn as_ref<'a>(&self) -> &'a T {
        &*(*self.slot.as_ptr()).val.as_ptr()
    }
    #[inline]
    pub unsafe fn as_mut<'a>(&self) -> &'a mut T {
        &mut *(*self.slot.as_ptr()).val.as_mut_ptr()
    }
    #[inline]
    pub fn as_ptr(&self) -> *mut T {
        unsafe { (*self.slot.as_ptr()).val.as_mut_ptr() }
    }
}

pub struct RawTable<T> {
    slots: P<Slot<T>>,
    /// logical bucket count, a power of two <= MAXB; 0 = the unallocated empty singleton
    buckets: usize,
    items: usize,
    growth_left: usize,
    /// number of DELETED control bytes. *Which* vacant buckets are tombstones is not
    /// represented: nothing a client can observe depends on it, and an insertion may meet
    /// either kind first (decided nondeterministically when both exist).
    tombs: usize,
    marker: PhantomData<T>,
}

unsafe impl<T: Send> Send for RawTable<T> {}
unsafe impl<T: Sync> Sync for RawTable<T> {}

fn phys_layout<T>() -> alloc::alloc::Layout {
    alloc::alloc::Layout::new::<[Slot<T>; MAXB]>()
}

impl<T> RawTable<T> {
    pub const fn new() -> Self {
        RawTable {
            slots: P::dangling(),
            buckets: 0,
            items: 0,
            growth_left: 0,
            tombs: 0,
            marker: PhantomData,
        }
    }

    fn alloc_buckets(buckets: usize) -> Self {
        if buckets > MAXB {
            // outside the model's size bound: the path is cut (and counted)
            #[cfg(kani)]
            kani::cover!(true, "[bound-cut] a table larger than the model bound MAXB was requested; the path is cut");
            assume(false);
        }
        let p = unsafe { alloc::alloc::alloc_zeroed(phys_layout::<T>()) } as *mut Slot<T>;
        assume(!p.is_null());
        unsafe {
            LIVE += 1;
            ALLOCS += 1;
        }
        RawTable {
            slots: nn(p),
            buckets,
            items: 0,
            growth_left: sizing::cap_of_mask(buckets - 1),
            tombs: 0,
            marker: PhantomData,
        }
    }

    /// hashbrown: `fallible_with_capacity`
    fn new_table(capacity: usize, fallible: bool) -> Result<Self, TryReserveError> {
        if capacity == 0 {
            return Ok(Self::new());
        }
        let buckets = match sizing::buckets_for(capacity) {
            Some(b) if sizing::layout_ok::<T>(b) => b,
            _ => {
                if fallible {
                    return Err(TryReserveError::CapacityOverflow);
                }
                panic!("Hash table capacity overflow");
            }
        };
        Ok(Self::alloc_buckets(buckets))
    }

    pub fn try_with_capacity(capacity: usize) -> Result<Self, TryReserveError> {
        Self::new_table(capacity, true)
    }

    pub fn with_capacity(capacity: usize) -> Self {
        match Self::new_table(capacity, false) {
            Ok(t) => t,
            Err(_) => unreachable!(),
        }
    }

    unsafe fn free_buckets(&mut self) {
        if self.buckets != 0 {
            alloc::alloc::dealloc(self.slots.as_ptr() as *mut u8, phys_layout::<T>());
            LIVE -= 1;
            self.buckets = 0;
            self.slots = P::dangling();
        }
    }

    #[inline(always)]
    unsafe fn slot(&self, i: usize) -> *mut Slot<T> {
        self.slots.as_ptr().add(i)
    }

    #[inline]
    fn full_capacity(&self) -> usize {
        if self.buckets == 0 {
            0
        } else {
            sizing::cap_of_mask(self.buckets - 1)
        }
    }

    pub unsafe fn bucket_index(&self, b: &Bucket<T>) -> usize {
        assert!(self.buckets != 0, "[ghost] bucket handed to a table that has no buckets");
        assert!(
            b.index < self.buckets && self.slots.as_ptr().add(b.index) == b.slot.as_ptr(),
            "[ghost] bucket does not belong to this table"
        );
        b.index
    }

    unsafe fn erase_no_drop(&mut self, item: &Bucket<T>) {
        let _ = self.bucket_index(item);
        let s = item.slot.as_ptr();
        assert!((*s).full, "[ghost] erase/remove of a bucket that is not full");
        (*s).full = false;
        // the real table decides from the neighbouring groups whether the slot can become
        // EMPTY again or must be a tombstone: either may happen
        if nondet_bool() {
            self.growth_left += 1;
        } else {
            self.tombs += 1;
        }
        self.items -= 1;
    }

    pub unsafe fn erase(&mut self, item: Bucket<T>) {
        self.erase_no_drop(&item);
        core::ptr::drop_in_place((*item.slot.as_ptr()).val.as_mut_ptr());
    }

    pub unsafe fn remove(&mut self, item: Bucket<T>) -> (T, InsertSlot) {
        self.erase_no_drop(&item);
        REMOVES += 1;
        (
            (*item.slot.as_ptr()).val.as_ptr().read(),
            InsertSlot { index: self.bucket_index(&item) },
        )
    }

    unsafe fn drop_elements(&mut self) {
        if !mem::needs_drop::<T>() {
            return;
        }
        let mut i = 0;
        while i < MAXB {
            if i < self.buckets {
                let s = self.slot(i);
                if (*s).full {
                    core::ptr::drop_in_place((*s).val.as_mut_ptr());
                }
            }
            i += 1;
        }
    }

    fn clear_no_drop(&mut self) {
        let mut i = 0;
        while i < MAXB {
            if i < self.buckets {
                unsafe { (*self.slot(i)).full = false };
            }
            i += 1;
        }
        self.items = 0;
        self.tombs = 0;
        self.growth_left = self.full_capacity();
    }

    pub fn clear(&mut self) {
        if self.buckets == 0 {
            return;
        }
        unsafe { self.drop_elements() };
        self.clear_no_drop();
    }

    /// hashbrown: `resize_inner` (always moves to a fresh allocation, rehashing every element)
    unsafe fn resize(
        &mut self,
        capacity: usize,
        hasher: impl Fn(&T) -> u64,
        fallible: bool,
    ) -> Result<(), TryReserveError> {
        let mut new = Self::new_table(capacity, fallible)?;
        let mut i = 0;
        let mut j = 0;
        while i < MAXB {
            if i < self.buckets {
                let s = self.slot(i);
                if (*s).full {
                    let h = hasher(&*(*s).val.as_ptr());
                    REHASH += 1;
                    assert!(j < new.buckets, "[model] resize target too small");
                    let d = new.slot(j);
                    (*d).full = true;
                    (*d).hash = h;
                    (*d).val.as_mut_ptr().write((*s).val.as_ptr().read());
                    j += 1;
                }
            }
            i += 1;
        }
        new.items = self.items;
        new.growth_left -= self.items;
        self.free_buckets();
        self.slots = new.slots;
        self.buckets = new.buckets;
        self.items = new.items;
        self.growth_left = new.growth_left;
        self.tombs = 0;
        mem::forget(new);
        Ok(())
    }

    pub fn shrink_to(&mut self, min_size: usize, hasher: impl Fn(&T) -> u64) {
        let min_size = usize::max(self.items, min_size);
        if min_size == 0 {
            unsafe {
                self.drop_elements();
                self.free_buckets();
            }
            self.items = 0;
            self.growth_left = 0;
            self.tombs = 0;
            return;
        }
        let min_buckets = match sizing::buckets_for(min_size) {
            Some(b) => b,
            None => return,
        };
        if min_buckets < self.buckets() {
            if self.items == 0 {
                unsafe { self.free_buckets() };
                *self = Self::with_capacity(min_size);
            } else {
                unsafe {
                    if self.resize(min_size, hasher, false).is_err() {
                        unreachable!()
                    }
                }
            }
        }
    }

    /// hashbrown: `reserve_rehash_inner`
    fn reserve_rehash(
        &mut self,
        additional: usize,
        hasher: impl Fn(&T) -> u64,
        fallible: bool,
    ) -> Result<(), TryReserveError> {
        let new_items = match self.items.checked_add(additional) {
            Some(n) => n,
            None => {
                if fallible {
                    return Err(TryReserveError::CapacityOverflow);
                }
                panic!("Hash table capacity overflow");
            }
        };
        let full_capacity = self.full_capacity();
        if new_items <= full_capacity / 2 {
            // rehash in place: tombstones vanish, every element is rehashed
            let mut i = 0;
            while i < MAXB {
                if i < self.buckets {
                    unsafe {
                        let s = self.slot(i);
                        if (*s).full {
                            (*s).hash = hasher(&*(*s).val.as_ptr());
                            REHASH += 1;
                        }
                    }
                }
                i += 1;
            }
            self.tombs = 0;
            self.growth_left = full_capacity - self.items;
            Ok(())
        } else {
            unsafe { self.resize(usize::max(new_items, full_capacity + 1), hasher, fallible) }
        }
    }

    pub fn reserve(&mut self, additional: usize, hasher: impl Fn(&T) -> u64) {
        if additional > self.growth_left {
            if self.reserve_rehash(additional, hasher, false).is_err() {
                unreachable!()
            }
        }
    }

    pub fn try_reserve(
        &mut self,
        additional: usize,
        hasher: impl Fn(&T) -> u64,
    ) -> Result<(), TryReserveError> {
        if additional > self.growth_left {
            self.reserve_rehash(additional, hasher, true)
        } else {
            Ok(())
        }
    }

    /// Where the next element goes: the lowest vacant bucket (any vacant bucket with feature
    /// `nondet-placement`). The real table follows the hash's probe sequence; griddle never
    /// looks at positions in the table it inserts into.
    unsafe fn choose_free_slot(&self) -> usize {
        #[cfg(feature = "nondet-placement")]
        {
            let i = nondet_usize();
            assume(i < self.buckets);
            assume(!(*self.slot(i)).full);
            return i;
        }
        #[cfg(not(feature = "nondet-placement"))]
        {
            let mut e = MAXB;
            let mut j = MAXB;
            while j > 0 {
                j -= 1;
                if j < self.buckets && !(*self.slot(j)).full {
                    e = j;
                }
            }
            assert!(e < MAXB, "[model] table without a vacant bucket");
            e
        }
    }

    /// Does the next insertion meet a tombstone (true) or an EMPTY byte (false)? Which one
    /// the probe sequence meets first is not determined by anything griddle controls, so when
    /// tombstones exist either may happen. (An EMPTY byte always exists: load factor < 1.)
    fn meets_tombstone(&self) -> bool {
        self.tombs > 0 && nondet_bool()
    }

    unsafe fn insert_at(&mut self, i: usize, tomb: bool, hash: u64, value: T) -> Bucket<T> {
        let s = self.slot(i);
        if tomb {
            self.tombs -= 1;
        } else {
            assert!(
                self.growth_left > 0,
                "[ghost] insert into an EMPTY bucket with growth_left == 0 (the real table underflows growth_left: capacity() lies and probe loops may not terminate)"
            );
            self.growth_left -= 1;
        }
        (*s).full = true;
        (*s).hash = hash;
        (*s).val.as_mut_ptr().write(value);
        self.items += 1;
        INSERTS += 1;
        Bucket { slot: nn(s), index: i }
    }

    pub fn insert(&mut self, hash: u64, value: T, hasher: impl Fn(&T) -> u64) -> Bucket<T> {
        unsafe {
            if self.buckets == 0 {
                self.reserve(1, &hasher);
            }
            let mut tomb = self.meets_tombstone();
            if self.growth_left == 0 && !tomb {
                self.reserve(1, &hasher);
                tomb = self.meets_tombstone();
            }
            let i = self.choose_free_slot();
            self.insert_at(i, tomb, hash, value)
        }
    }

    pub unsafe fn insert_no_grow(&mut self, hash: u64, value: T) -> Bucket<T> {
        assert!(
            self.buckets != 0,
            "[ghost] insert_no_grow on the unallocated empty table (writes to the static empty group)"
        );
        let tomb = self.meets_tombstone();
        let i = self.choose_free_slot();
        self.insert_at(i, tomb, hash, value)
    }

    pub unsafe fn replace_bucket_with<F>(&mut self, bucket: Bucket<T>, f: F) -> bool
    where
        F: FnOnce(T) -> Option<T>,
    {
        let _ = self.bucket_index(&bucket);
        let s = bucket.slot.as_ptr();
        if cfg!(debug_assertions) {
            assert!((*s).full, "[debug-only] replace_bucket_with: debug_assert!(is_bucket_full)");
        }
        let old_growth_left = self.growth_left;
        let old_tombs = self.tombs;
        let item = self.remove(bucket).0;
        if let Some(new_item) = f(item) {
            self.growth_left = old_growth_left;
            self.tombs = old_tombs;
            (*s).full = true;
            self.items += 1;
            (*s).val.as_mut_ptr().write(new_item);
            true
        } else {
            false
        }
    }

    pub fn find(&self, hash: u64, mut eq: impl FnMut(&T) -> bool) -> Option<Bucket<T>> {
        let mut i = 0;
        while i < MAXB {
            if i < self.buckets {
                unsafe {
                    let s = self.slot(i);
                    if (*s).full && eq(&*(*s).val.as_ptr()) {
                        assert!(
                            (*s).hash == hash,
                            "[ghost] lookup hash differs from the hash the matching element was stored under (the real probe sequence can miss it)"
                        );
                        return Some(Bucket { slot: nn(s), index: i });
                    }
                }
            }
            i += 1;
        }
        None
    }

    // -- the rest of hashbrown's safe lookup/removal surface (same code as the real crate's
    //    one-line wrappers), so that a griddle that starts using them still compiles
    pub fn get(&self, hash: u64, eq: impl FnMut(&T) -> bool) -> Option<&T> {
        match self.find(hash, eq) {
            Some(bucket) => Some(unsafe { bucket.as_ref() }),
            None => None,
        }
    }
    pub fn get_mut(&mut self, hash: u64, eq: impl FnMut(&T) -> bool) -> Option<&mut T> {
        match self.find(hash, eq) {
            Some(bucket) => Some(unsafe { bucket.as_mut() }),
            None => None,
        }
    }
    pub fn remove_entry(&mut self, hash: u64, eq: impl FnMut(&T) -> bool) -> Option<T> {
        match self.find(hash, eq) {
            Some(bucket) => Some(unsafe { self.remove(bucket).0 }),
            None => None,
        }
    }
    pub fn erase_entry(&mut self, hash: u64, eq: impl FnMut(&T) -> bool) -> bool {
        if let Some(bucket) = self.find(hash, eq) {
            unsafe { self.erase(bucket) };
            true
        } else {
            false
        }
    }
    pub fn insert_entry(&mut self, hash: u64, value: T, hasher: impl Fn(&T) -> u64) -> &mut T {
        unsafe { self.insert(hash, value, hasher).as_mut() }
    }
    pub fn try_insert_no_grow(&mut self, hash: u64, value: T) -> Result<Bucket<T>, T> {
        unsafe {
            if self.buckets == 0 {
                return Err(value);
            }
            let tomb = self.meets_tombstone();
            if !tomb && self.growth_left == 0 {
                return Err(value);
            }
            let i = self.choose_free_slot();
            Ok(self.insert_at(i, tomb, hash, value))
        }
    }
    pub fn clear_no_drop_pub(&mut self) {
        self.clear_no_drop()
    }
    pub unsafe fn is_bucket_full(&self, index: usize) -> bool {
        index < self.buckets && (*self.slot(index)).full
    }
    pub unsafe fn bucket(&self, index: usize) -> Bucket<T> {
        assert!(index < self.buckets, "[ghost] bucket(): index out of range");
        Bucket { slot: nn(self.slot(index)), index }
    }

    #[inline]
    pub fn capacity(&self) -> usize {
        self.items + self.growth_left
    }
    #[inline]
    pub fn len(&self) -> usize {
        self.items
    }
    #[inline]
    pub fn is_empty(&self) -> bool {
        self.items == 0
    }
    #[inline]
    pub fn buckets(&self) -> usize {
        if self.buckets == 0 {
            1
        } else {
            self.buckets
        }
    }

    unsafe fn load_mask(slots: P<Slot<T>>, buckets: usize, start: usize) -> usize {
        let mut m = 0usize;
        let mut k = 0;
        while k < W {
            if start + k < buckets && (*slots.as_ptr().add(start + k)).full {
                m |= 1 << k;
            }
            k += 1;
        }
        m
    }

    pub unsafe fn iter(&self) -> RawIter<T> {
        RawIter {
            slots: self.slots,
            buckets: self.buckets,
            group_start: 0,
            mask: Self::load_mask(self.slots, self.buckets, 0),
            items: self.items,
        }
    }

    pub fn drain(&mut self) -> RawDrain<'_, T> {
        unsafe {
            let iter = self.iter();
            RawDrain {
                iter,
                table: mem::replace(self, Self::new()),
                orig: NonNull::from(self),
                marker: PhantomData,
            }
        }
    }

    pub unsafe fn into_iter_from(self, iter: RawIter<T>) -> RawIntoIter<T> {
        if cfg!(debug_assertions) {
            assert!(iter.items == self.items, "[debug-only] into_iter_from: debug_assert_eq!(iter.len(), self.len())");
        }
        assert!(
            self.buckets == 0 || (iter.slots == self.slots && iter.buckets == self.buckets),
            "[ghost] into_iter_from: the iterator walks a different table"
        );
        let r = RawIntoIter {
            iter,
            slots: self.slots,
            buckets: self.buckets,
        };
        mem::forget(self);
        r
    }
}

impl<T> IntoIterator for RawTable<T> {
    type Item = T;
    type IntoIter = RawIntoIter<T>;
    fn into_iter(self) -> RawIntoIter<T> {
        unsafe {
            let iter = self.iter();
            self.into_iter_from(iter)
        }
    }
}

impl<T: Clone> Clone for RawTable<T> {
    fn clone(&self) -> Self {
        if self.buckets == 0 {
            return Self::new();
        }
        let mut n = Self::alloc_buckets(self.buckets);
        let mut i = 0;
        while i < MAXB {
            if i < self.buckets {
                unsafe {
                    let s = self.slot(i);
                    let d = n.slot(i);
                    // control bytes (i.e. hash bits) are copied verbatim
                    (*d).full = (*s).full;
                    (*d).hash = (*s).hash;
                    if (*s).full {
                        (*d).val.as_mut_ptr().write((*(*s).val.as_ptr()).clone());
                    }
                }
            }
            i += 1;
        }
        n.items = self.items;
        n.growth_left = self.growth_left;
        n.tombs = self.tombs;
        n
    }
}

impl<T: Clone> RawTable<T> {
    pub fn clone_from_with_hasher(&mut self, source: &Self, hasher: impl Fn(&T) -> u64) {
        if self.buckets() != source.buckets() && self.full_capacity() >= source.len() {
            // reuse the allocation: clear, then re-insert clones under `hasher`
            self.clear();
            let mut i = 0;
            let mut j = 0;
            while i < MAXB {
                if i < source.buckets {
                    unsafe {
                        let s = source.slot(i);
                        if (*s).full {
                            let item = (*(*s).val.as_ptr()).clone();
                            let h = hasher(&item);
                            REHASH += 1;
                            let d = self.slot(j);
                            (*d).full = true;
                            (*d).hash = h;
                            (*d).val.as_mut_ptr().write(item);
                            j += 1;
                        }
                    }
                }
                i += 1;
            }
            self.items = source.items;
            self.growth_left -= source.items;
        } else {
            // hashbrown: `self.clone_from(source)` — bitwise copy of the control bytes
            let n = source.clone();
            unsafe {
                self.drop_elements();
                self.free_buckets();
            }
            self.slots = n.slots;
            self.buckets = n.buckets;
            self.items = n.items;
            self.growth_left = n.growth_left;
            self.tombs = n.tombs;
            mem::forget(n);
        }
    }
}

impl<T> Drop for RawTable<T> {
    fn drop(&mut self) {
        unsafe {
            self.drop_elements();
            self.free_buckets();
        }
    }
}

/// Cursor over the full buckets of one table. Like the real one it *trusts* `items`.
pub struct RawIter<T> {
    slots: P<Slot<T>>,
    buckets: usize,
    group_start: usize,
    mask: usize,
    items: usize,
}
unsafe impl<T: Send> Send for RawIter<T> {}
unsafe impl<T: Sync> Sync for RawIter<T> {}

impl<T> Clone for RawIter<T> {
    #[inline]
    fn clone(&self) -> Self {
        RawIter {
            slots: self.slots,
            buckets: self.buckets,
            group_start: self.group_start,
            mask: self.mask,
            items: self.items,
        }
    }
}

impl<T> RawIter<T> {
    /// hashbrown: `reflect_remove` — to be called *before* the bucket is vacated.
    pub unsafe fn reflect_remove(&mut self, b: &Bucket<T>) {
        self.reflect_toggle_full(b, false)
    }

    /// hashbrown: `reflect_insert` — to be called *after* the bucket was filled.
    pub unsafe fn reflect_insert(&mut self, b: &Bucket<T>) {
        self.reflect_toggle_full(b, true)
    }

    /// Transliteration of hashbrown's `reflect_toggle_full`. The real code compares element
    /// pointers, which decrease as the bucket index grows, and for a zero-sized `T` every
    /// bucket has the *same* element pointer; both are kept. Note what the real code does for
    /// an insert into a bucket that lies before the iterator's next pending bucket of the
    /// current group (or when that group has no pending bit left): nothing — it treats the
    /// bucket as already yielded.
    unsafe fn reflect_toggle_full(&mut self, b: &Bucket<T>, is_insert: bool) {
        let zst = mem::size_of::<T>() == 0;
        assert!(
            b.index < self.buckets && self.slots.as_ptr().add(b.index) == b.slot.as_ptr(),
            "[ghost] reflect_remove/reflect_insert: bucket is not in the iterator's table"
        );
        let idx = b.index;
        // `if b.as_ptr() > self.iter.data.as_ptr() { return }` — iterator already passed it
        if !zst && idx < self.group_start {
            return;
        }
        // `if self.iter.next_ctrl < self.iter.end
        //      && b.as_ptr() <= self.iter.data.next_n(Group::WIDTH).as_ptr()`
        if self.group_start + W < self.buckets && (zst || idx >= self.group_start + W) {
            if cfg!(debug_assertions) {
                // `offset_from(self.iter.data.as_ptr(), b.as_ptr())`
                assert!(
                    !zst,
                    "[panic] hashbrown reflect_remove: offset_from on a zero-sized element type (assertion 0 < pointee_size)"
                );
                assert!(
                    (*b.slot.as_ptr()).full,
                    "[debug-only] hashbrown reflect_remove: assert!(is_full(*ctrl)) — must be called before the removal (after the insert), for a full bucket"
                );
            }
            if is_insert {
                self.items += 1;
            } else {
                assert!(self.items > 0, "[ghost] reflect_remove: iterator item count underflows");
                self.items -= 1;
            }
            return;
        }
        // the iterator is at the bucket's group
        if self.mask != 0 {
            let lowest = self.mask.trailing_zeros() as usize;
            // `if b.as_ptr() > next_bucket.as_ptr()` — already yielded
            if !zst && idx < self.group_start + lowest {
                return;
            }
            // `let our_bit = offset_from(self.iter.data.as_ptr(), b.as_ptr());`
            assert!(
                !zst,
                "[panic] hashbrown reflect_remove: offset_from on a zero-sized element type (assertion 0 < pointee_size)"
            );
            let bit = 1usize << (idx - self.group_start);
            let was_full = self.mask & bit != 0;
            self.mask ^= bit;
            if cfg!(debug_assertions) {
                assert!(was_full != is_insert, "[debug-only] hashbrown reflect_remove/insert: debug_assert_ne!(was_full, is_insert)");
            }
            if is_insert {
                self.items += 1;
            } else {
                assert!(self.items > 0, "[ghost] reflect_remove: iterator item count underflows");
                self.items -= 1;
            }
        }
    }

    unsafe fn drop_elements(&mut self) {
        if mem::needs_drop::<T>() && self.items != 0 {
            while let Some(b) = self.next() {
                core::ptr::drop_in_place((*b.slot.as_ptr()).val.as_mut_ptr());
            }
        }
    }
}

impl<T> Iterator for RawIter<T> {
    type Item = Bucket<T>;
    fn next(&mut self) -> Option<Bucket<T>> {
        if self.items == 0 {
            return None;
        }
        unsafe {
            // hashbrown: `next_impl::<false>()` — no range check, `items` is trusted
            let mut round = 0;
            while round <= MAXB / W {
                if self.mask != 0 {
                    let k = self.mask.trailing_zeros() as usize;
                    self.mask &= self.mask - 1;
                    self.items -= 1;
                    let s = self.slots.as_ptr().add(self.group_start + k);
                    assert!(
                        (*s).full,
                        "[ghost] RawIter yields a bucket that is no longer full (stale cached group: a removal was not reflected)"
                    );
                    return Some(Bucket { slot: nn(s), index: self.group_start + k });
                }
                self.group_start += W;
                assert!(
                    self.group_start < self.buckets,
                    "[ghost] RawIter over-read: its item count exceeds the full buckets left (the real iterator reads past the control bytes)"
                );
                self.mask = RawTable::<T>::load_mask(self.slots, self.buckets, self.group_start);
                round += 1;
            }
            unreachable!()
        }
    }
    #[inline]
    fn size_hint(&self) -> (usize, Option<usize>) {
        (self.items, Some(self.items))
    }
}
impl<T> ExactSizeIterator for RawIter<T> {}
impl<T> core::iter::FusedIterator for RawIter<T> {}

pub struct RawIntoIter<T> {
    iter: RawIter<T>,
    slots: P<Slot<T>>,
    buckets: usize,
}
unsafe impl<T: Send> Send for RawIntoIter<T> {}
unsafe impl<T: Sync> Sync for RawIntoIter<T> {}
impl<T> RawIntoIter<T> {
    #[inline]
    pub fn iter(&self) -> RawIter<T> {
        self.iter.clone()
    }
}
impl<T> Iterator for RawIntoIter<T> {
    type Item = T;
    fn next(&mut self) -> Option<T> {
        unsafe { Some((*self.iter.next()?.slot.as_ptr()).val.as_ptr().read()) }
    }
    #[inline]
    fn size_hint(&self) -> (usize, Option<usize>) {
        self.iter.size_hint()
    }
}
impl<T> ExactSizeIterator for RawIntoIter<T> {}
impl<T> core::iter::FusedIterator for RawIntoIter<T> {}
impl<T> Drop for RawIntoIter<T> {
    fn drop(&mut self) {
        unsafe {
            self.iter.drop_elements();
            if self.buckets != 0 {
                alloc::alloc::dealloc(self.slots.as_ptr() as *mut u8, phys_layout::<T>());
                LIVE -= 1;
            }
        }
    }
}

pub struct RawDrain<'a, T> {
    iter: RawIter<T>,
    // the table is moved into the iterator for the duration of the drain, so that an empty
    // table is left behind if the drain is leaked
    table: RawTable<T>,
    orig: NonNull<RawTable<T>>,
    marker: PhantomData<&'a RawTable<T>>,
}
unsafe impl<T: Send> Send for RawDrain<'_, T> {}
unsafe impl<T: Sync> Sync for RawDrain<'_, T> {}
impl<T> RawDrain<'_, T> {
    #[inline]
    pub fn iter(&self) -> RawIter<T> {
        self.iter.clone()
    }
}
impl<T> Iterator for RawDrain<'_, T> {
    type Item = T;
    fn next(&mut self) -> Option<T> {
        unsafe { Some((*self.iter.next()?.slot.as_ptr()).val.as_ptr().read()) }
    }
    #[inline]
    fn size_hint(&self) -> (usize, Option<usize>) {
        self.iter.size_hint()
    }
}
impl<T> ExactSizeIterator for RawDrain<'_, T> {}
impl<T> core::iter::FusedIterator for RawDrain<'_, T> {}
impl<T> Drop for RawDrain<'_, T> {
    fn drop(&mut self) {
        unsafe {
            self.iter.drop_elements();
            self.table.clear_no_drop();
            let t = mem::replace(&mut self.table, RawTable::new());
            core::ptr::write(self.orig.as_ptr(), t);
        }
    }
}

// ---------------------------------------------------------------------------------------
// Backdoors for harnesses (never called by griddle).
// ---------------------------------------------------------------------------------------
impl<T> RawTable<T> {
    /// Table with a *concrete* layout (`full_mask`/`del_mask` over bucket indices) whose
    /// elements come from `gen(i)`; each is stored under `hashfn(&elem)`.
    pub fn verif_build(
        buckets: usize,
        full_mask: usize,
        del_mask: usize,
        mut gen: impl FnMut(usize) -> T,
        hashfn: impl Fn(&T) -> u64,
    ) -> Self {
        assert!(buckets.is_power_of_two() && buckets >= 4 && buckets <= MAXB);
        assert!(full_mask & del_mask == 0 && (full_mask | del_mask) >> buckets == 0);
        let mut t = Self::alloc_buckets(buckets);
        let cap = sizing::cap_of_mask(buckets - 1);
        let mut i = 0;
        let mut full = 0;
        let mut del = 0;
        while i < buckets {
            unsafe {
                let s = t.slot(i);
                if full_mask >> i & 1 == 1 {
                    let v = gen(i);
                    (*s).full = true;
                    (*s).hash = hashfn(&v);
                    (*s).val.as_mut_ptr().write(v);
                    full += 1;
                } else if del_mask >> i & 1 == 1 {
                    del += 1;
                }
            }
            i += 1;
        }
        assert!(full + del <= cap, "[harness] layout exceeds the table's load limit");
        t.items = full;
        t.tombs = del;
        t.growth_left = cap - full - del;
        t
    }

    /// Cursor positioned at group `g` (a multiple of `W`) with the cached mask equal to the
    /// FULL bits of that group and the count equal to the table's length: exactly the
    /// states a correct client can be in when no FULL bucket precedes `g`.
    pub unsafe fn verif_iter_at(&self, g: usize) -> RawIter<T> {
        assert!(g % W == 0 && (g < self.buckets || g == 0));
        RawIter {
            slots: self.slots,
            buckets: self.buckets,
            group_start: g,
            mask: Self::load_mask(self.slots, self.buckets, g),
            items: self.items,
        }
    }

    pub fn verif_growth_left(&self) -> usize {
        self.growth_left
    }
    pub fn verif_nslots(&self) -> usize {
        self.buckets
    }
    pub fn verif_is_allocated(&self) -> bool {
        self.buckets != 0
    }
    pub fn verif_is_full(&self, i: usize) -> bool {
        unsafe { i < self.buckets && (*self.slot(i)).full }
    }
    pub fn verif_tombs(&self) -> usize {
        self.tombs
    }
    pub fn verif_slot(&self, i: usize) -> Option<&T> {
        unsafe {
            if i < self.buckets && (*self.slot(i)).full {
                Some(&*(*self.slot(i)).val.as_ptr())
            } else {
                None
            }
        }
    }
    pub fn verif_hash(&self, i: usize) -> u64 {
        unsafe {
            if i < self.buckets {
                (*self.slot(i)).hash
            } else {
                0
            }
        }
    }
    /// number of FULL control bytes (independent of the `items` counter)
    pub fn verif_count_full(&self) -> usize {
        let mut n = 0;
        let mut i = 0;
        while i < MAXB {
            if self.verif_is_full(i) {
                n += 1;
            }
            i += 1;
        }
        n
    }
    /// same allocation?
    pub fn verif_same_alloc(&self, other: &Self) -> bool {
        self.buckets != 0 && other.buckets != 0 && self.slots == other.slots
    }
}

impl<T> RawIter<T> {
    /// Cursor agreement (DESIGN.md I2): the iterator walks `t`'s allocation, will still yield
    /// exactly the FULL buckets of `t`, and its count equals `t.len()`.
    pub fn verif_agrees(&self, t: &RawTable<T>) -> bool {
        if t.buckets == 0 {
            return self.items == 0;
        }
        if self.slots != t.slots || self.buckets != t.buckets {
            return false;
        }
        if self.items != t.items {
            return false;
        }
        let mut ok = true;
        let mut i = 0;
        while i < MAXB {
            if i < t.buckets {
                let full = unsafe { (*t.slot(i)).full };
                let pending = if i < self.group_start {
                    false
                } else if i < self.group_start + W {
                    self.mask & (1 << (i - self.group_start)) != 0
                } else {
                    full
                };
                ok &= full == pending;
            }
            i += 1;
        }
        ok
    }
    pub fn verif_remaining(&self) -> usize {
        self.items
    }
    pub fn verif_group(&self) -> usize {
        self.group_start
    }
}
