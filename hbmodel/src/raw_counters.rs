//! Counters mode (DESIGN.md §3.3): a table is its counters only — `items`, `growth_left`,
//! tombstones, bucket count — with no element storage, so every size is an unconstrained
//! 64-bit solver variable. Element identity is gone: `find` answers nondeterministically,
//! `remove`/`next` hand out one scratch value. This mode decides size/accounting properties
//! only (C02, C03, C04, C10, C17); element semantics are decided in slots mode.
//! The sizing arithmetic is the same `include!`d hashbrown text as in slots mode.
use super::verif::*;
use super::*;
use core::marker::PhantomData;
use core::mem::{self, MaybeUninit};
use core::ptr::NonNull;

pub const W: usize = 4;
pub const MAXB: usize = 0;

/// plain pointer wrapper without a niche (see raw_slots.rs)
pub struct P<T>(*const T);
impl<T> Clone for P<T> {
    #[inline(always)]
    fn clone(&self) -> Self {
        P(self.0)
    }
}
impl<T> Copy for P<T> {}
impl<T> P<T> {
    pub const fn dangling() -> Self {
        P(core::ptr::null())
    }
    #[inline(always)]
    pub fn as_ptr(self) -> *mut T {
        self.0 as *mut T
    }
}

/// the one heap cell of a table: stands for "some element of this table"
pub struct Cell<T> {
    val: MaybeUninit<T>,
}

pub struct InsertSlot {
    index: usize,
}

pub struct Bucket<T> {
    cell: P<Cell<T>>,
}
unsafe impl<T> Send for Bucket<T> {}
impl<T> Clone for Bucket<T> {
    fn clone(&self) -> Self {
        Bucket { cell: self.cell }
    }
}
impl<T> Bucket<T> {
    pub unsafe fn as_ref<'a>(&self) -> &'a T {
        &*(*self.cell.as_ptr()).val.as_ptr()
    }
    pub unsafe fn as_mut<'a>(&self) -> &'a mut T {
        &mut *(*self.cell.as_ptr()).val.as_mut_ptr()
    }
    pub fn as_ptr(&self) -> *mut T {
        unsafe { (*self.cell.as_ptr()).val.as_mut_ptr() }
    }
}

pub struct RawTable<T> {
    cell: P<Cell<T>>,
    /// bucket count, a power of two; 0 = the unallocated empty singleton
    buckets: usize,
    items: usize,
    growth_left: usize,
    tombs: usize,
    marker: PhantomData<T>,
}
unsafe impl<T: Send> Send for RawTable<T> {}
unsafe impl<T: Sync> Sync for RawTable<T> {}

impl<T> RawTable<T> {
    pub const fn new() -> Self {
        RawTable { cell: P::dangling(), buckets: 0, items: 0, growth_left: 0, tombs: 0, marker: PhantomData }
    }

    fn alloc_buckets(buckets: usize) -> Self {
        let p = unsafe { alloc::alloc::alloc_zeroed(alloc::alloc::Layout::new::<Cell<T>>()) } as *mut Cell<T>;
        assume(!p.is_null());
        unsafe {
            LIVE += 1;
            ALLOCS += 1;
        }
        RawTable {
            cell: P(p as *const Cell<T>),
            buckets,
            items: 0,
            growth_left: sizing::cap_of_mask(buckets - 1),
            tombs: 0,
            marker: PhantomData,
        }
    }

    fn new_table(capacity: usize, fallible: bool) -> Result<Self, TryReserveError> {
        if capacity == 0 {
            return Ok(Self::new());
        }
        let buckets = match sizing::buckets_for(capacity) {
            Some(b) if sizing::layout_ok::<T>(b) => b,
            _ => {
                if fallible {
                    return Err(TryReserveError::CapacityOverflow);
                }
                panic!("Hash table capacity overflow");
            }
        };
        Ok(Self::alloc_buckets(buckets))
    }
    pub fn try_with_capacity(capacity: usize) -> Result<Self, TryReserveError> {
        Self::new_table(capacity, true)
    }
    pub fn with_capacity(capacity: usize) -> Self {
        match Self::new_table(capacity, false) {
            Ok(t) => t,
            Err(_) => unreachable!(),
        }
    }

    unsafe fn free_buckets(&mut self) {
        if self.buckets != 0 {
            alloc::alloc::dealloc(self.cell.as_ptr() as *mut u8, alloc::alloc::Layout::new::<Cell<T>>());
            LIVE -= 1;
            self.buckets = 0;
            self.cell = P::dangling();
        }
    }

    fn full_capacity(&self) -> usize {
        if self.buckets == 0 {
            0
        } else {
            sizing::cap_of_mask(self.buckets - 1)
        }
    }

    unsafe fn erase_no_drop(&mut self, item: &Bucket<T>) {
        assert!(self.buckets != 0 && item.cell.as_ptr() == self.cell.as_ptr(), "[ghost] bucket does not belong to this table");
        assert!(self.items > 0, "[ghost] erase/remove of a bucket that is not full");
        if nondet_bool() {
            self.growth_left += 1;
        } else {
            self.tombs += 1;
        }
        self.items -= 1;
    }
    pub unsafe fn erase(&mut self, item: Bucket<T>) {
        self.erase_no_drop(&item);
    }
    pub unsafe fn remove(&mut self, item: Bucket<T>) -> (T, InsertSlot) {
        self.erase_no_drop(&item);
        REMOVES += 1;
        ((*item.cell.as_ptr()).val.as_ptr().read(), InsertSlot { index: 0 })
    }

    pub fn clear(&mut self) {
        if self.buckets == 0 {
            return;
        }
        self.items = 0;
        self.tombs = 0;
        self.growth_left = self.full_capacity();
    }

    /// every element a real resize / in-place rehash would hash
    unsafe fn note_rehash(&self, hasher: &impl Fn(&T) -> u64) {
        if self.items > 0 {
            let _ = hasher(&*(*self.cell.as_ptr()).val.as_ptr());
            REHASH += self.items;
        }
    }

    unsafe fn resize(&mut self, capacity: usize, hasher: impl Fn(&T) -> u64, fallible: bool) -> Result<(), TryReserveError> {
        let mut new = Self::new_table(capacity, fallible)?;
        assert!(new.buckets != 0 && new.growth_left >= self.items, "[model] resize target too small");
        self.note_rehash(&hasher);
        if self.buckets != 0 {
            (*new.cell.as_ptr()).val.as_mut_ptr().write((*self.cell.as_ptr()).val.as_ptr().read());
        }
        new.items = self.items;
        new.growth_left -= self.items;
        self.free_buckets();
        self.cell = new.cell;
        self.buckets = new.buckets;
        self.items = new.items;
        self.growth_left = new.growth_left;
        self.tombs = 0;
        mem::forget(new);
        Ok(())
    }

    pub fn shrink_to(&mut self, min_size: usize, hasher: impl Fn(&T) -> u64) {
        let min_size = usize::max(self.items, min_size);
        if min_size == 0 {
            unsafe { self.free_buckets() };
            self.items = 0;
            self.growth_left = 0;
            self.tombs = 0;
            return;
        }
        let min_buckets = match sizing::buckets_for(min_size) {
            Some(b) => b,
            None => return,
        };
        if min_buckets < self.buckets() {
            if self.items == 0 {
                unsafe { self.free_buckets() };
                *self = Self::with_capacity(min_size);
            } else {
                unsafe {
                    if self.resize(min_size, hasher, false).is_err() {
                        unreachable!()
                    }
                }
            }
        }
    }

    fn reserve_rehash(&mut self, additional: usize, hasher: impl Fn(&T) -> u64, fallible: bool) -> Result<(), TryReserveError> {
        let new_items = match self.items.checked_add(additional) {
            Some(n) => n,
            None => {
                if fallible {
                    return Err(TryReserveError::CapacityOverflow);
                }
                panic!("Hash table capacity overflow");
            }
        };
        let full_capacity = self.full_capacity();
        if new_items <= full_capacity / 2 {
            unsafe { self.note_rehash(&hasher) };
            self.tombs = 0;
            self.growth_left = full_capacity - self.items;
            Ok(())
        } else {
            unsafe { self.resize(usize::max(new_items, full_capacity + 1), hasher, fallible) }
        }
    }
    pub fn reserve(&mut self, additional: usize, hasher: impl Fn(&T) -> u64) {
        if additional > self.growth_left {
            if self.reserve_rehash(additional, hasher, false).is_err() {
                unreachable!()
            }
        }
    }
    pub fn try_reserve(&mut self, additional: usize, hasher: impl Fn(&T) -> u64) -> Result<(), TryReserveError> {
        if additional > self.growth_left {
            self.reserve_rehash(additional, hasher, true)
        } else {
            Ok(())
        }
    }

    fn meets_tombstone(&self) -> bool {
        self.tombs > 0 && nondet_bool()
    }

    unsafe fn insert_at(&mut self, tomb: bool, value: T) -> Bucket<T> {
        if tomb {
            self.tombs -= 1;
        } else {
            assert!(
                self.growth_left > 0,
                "[ghost] insert into an EMPTY bucket with growth_left == 0 (the real table underflows growth_left: capacity() lies and probe loops may not terminate)"
            );
            self.growth_left -= 1;
        }
        (*self.cell.as_ptr()).val.as_mut_ptr().write(value);
        self.items += 1;
        INSERTS += 1;
        Bucket { cell: self.cell }
    }

    pub fn insert(&mut self, _hash: u64, value: T, hasher: impl Fn(&T) -> u64) -> Bucket<T> {
        unsafe {
            if self.buckets == 0 {
                self.reserve(1, &hasher);
            }
            let mut tomb = self.meets_tombstone();
            if self.growth_left == 0 && !tomb {
                self.reserve(1, &hasher);
                tomb = self.meets_tombstone();
            }
            self.insert_at(tomb, value)
        }
    }

    pub unsafe fn insert_no_grow(&mut self, _hash: u64, value: T) -> Bucket<T> {
        assert!(self.buckets != 0, "[ghost] insert_no_grow on the unallocated empty table (writes to the static empty group)");
        let tomb = self.meets_tombstone();
        self.insert_at(tomb, value)
    }

    pub unsafe fn replace_bucket_with<F>(&mut self, bucket: Bucket<T>, f: F) -> bool
    where
        F: FnOnce(T) -> Option<T>,
    {
        let old_growth_left = self.growth_left;
        let old_tombs = self.tombs;
        let item = self.remove(bucket).0;
        if let Some(new_item) = f(item) {
            self.growth_left = old_growth_left;
            self.tombs = old_tombs;
            self.items += 1;
            (*self.cell.as_ptr()).val.as_mut_ptr().write(new_item);
            true
        } else {
            false
        }
    }

    /// no element identity: a lookup in a non-empty table may or may not find the key
    pub fn find(&self, _hash: u64, _eq: impl FnMut(&T) -> bool) -> Option<Bucket<T>> {
        if self.items > 0 && nondet_bool() {
            Some(Bucket { cell: self.cell })
        } else {
            None
        }
    }

    pub fn get(&self, hash: u64, eq: impl FnMut(&T) -> bool) -> Option<&T> {
        match self.find(hash, eq) {
            Some(bucket) => Some(unsafe { bucket.as_ref() }),
            None => None,
        }
    }
    pub fn get_mut(&mut self, hash: u64, eq: impl FnMut(&T) -> bool) -> Option<&mut T> {
        match self.find(hash, eq) {
            Some(bucket) => Some(unsafe { bucket.as_mut() }),
            None => None,
        }
    }
    pub fn remove_entry(&mut self, hash: u64, eq: impl FnMut(&T) -> bool) -> Option<T> {
        match self.find(hash, eq) {
            Some(bucket) => Some(unsafe { self.remove(bucket).0 }),
            None => None,
        }
    }
    pub fn erase_entry(&mut self, hash: u64, eq: impl FnMut(&T) -> bool) -> bool {
        if let Some(bucket) = self.find(hash, eq) {
            unsafe { self.erase(bucket) };
            true
        } else {
            false
        }
    }
    pub fn insert_entry(&mut self, hash: u64, value: T, hasher: impl Fn(&T) -> u64) -> &mut T {
        unsafe { self.insert(hash, value, hasher).as_mut() }
    }
    pub fn capacity(&self) -> usize {
        self.items + self.growth_left
    }
    pub fn len(&self) -> usize {
        self.items
    }
    pub fn is_empty(&self) -> bool {
        self.items == 0
    }
    pub fn buckets(&self) -> usize {
        if self.buckets == 0 {
            1
        } else {
            self.buckets
        }
    }

    pub unsafe fn iter(&self) -> RawIter<T> {
        RawIter { cell: self.cell, items: self.items }
    }
    pub fn drain(&mut self) -> RawDrain<'_, T> {
        unsafe {
            let iter = self.iter();
            RawDrain { iter, table: mem::replace(self, Self::new()), orig: NonNull::from(self), marker: PhantomData }
        }
    }
    pub unsafe fn into_iter_from(self, iter: RawIter<T>) -> RawIntoIter<T> {
        if cfg!(debug_assertions) {
            assert!(iter.items == self.items, "[debug-only] into_iter_from: debug_assert_eq!(iter.len(), self.len())");
        }
        let r = RawIntoIter { iter, cell: self.cell, allocated: self.buckets != 0 };
        mem::forget(self);
        r
    }
}

impl<T> IntoIterator for RawTable<T> {
    type Item = T;
    type IntoIter = RawIntoIter<T>;
    fn into_iter(self) -> RawIntoIter<T> {
        unsafe {
            let iter = self.iter();
            self.into_iter_from(iter)
        }
    }
}

impl<T: Clone> Clone for RawTable<T> {
    fn clone(&self) -> Self {
        if self.buckets == 0 {
            return Self::new();
        }
        let mut n = Self::alloc_buckets(self.buckets);
        unsafe {
            if self.items > 0 {
                (*n.cell.as_ptr()).val.as_mut_ptr().write((*(*self.cell.as_ptr()).val.as_ptr()).clone());
            }
        }
        n.items = self.items;
        n.growth_left = self.growth_left;
        n.tombs = self.tombs;
        n
    }
}
impl<T: Clone> RawTable<T> {
    pub fn clone_from_with_hasher(&mut self, source: &Self, hasher: impl Fn(&T) -> u64) {
        if self.buckets() != source.buckets() && self.full_capacity() >= source.len() {
            self.clear();
            unsafe {
                if source.items > 0 {
                    let item = (*(*source.cell.as_ptr()).val.as_ptr()).clone();
                    let _ = hasher(&item);
                    REHASH += source.items;
                    (*self.cell.as_ptr()).val.as_mut_ptr().write(item);
                }
            }
            self.items = source.items;
            self.growth_left -= source.items;
        } else {
            let n = source.clone();
            unsafe { self.free_buckets() };
            self.cell = n.cell;
            self.buckets = n.buckets;
            self.items = n.items;
            self.growth_left = n.growth_left;
            self.tombs = n.tombs;
            mem::forget(n);
        }
    }
}

impl<T> Drop for RawTable<T> {
    fn drop(&mut self) {
        unsafe { self.free_buckets() };
    }
}

/// Cursor: only its count exists in this mode. Elements it yields are removed at once by the
/// client (carry), so every element still in the table is still ahead of the cursor and
/// `reflect_remove` always decrements.
pub struct RawIter<T> {
    cell: P<Cell<T>>,
    items: usize,
}
unsafe impl<T: Send> Send for RawIter<T> {}
unsafe impl<T: Sync> Sync for RawIter<T> {}
impl<T> Clone for RawIter<T> {
    fn clone(&self) -> Self {
        RawIter { cell: self.cell, items: self.items }
    }
}
impl<T> RawIter<T> {
    pub unsafe fn reflect_remove(&mut self, b: &Bucket<T>) {
        assert!(b.cell.as_ptr() == self.cell.as_ptr(), "[ghost] reflect_remove: bucket is not in the iterator's table");
        assert!(self.items > 0, "[ghost] reflect_remove: iterator item count underflows");
        self.items -= 1;
    }
    /// whether the real iterator takes notice of the insert depends on the bucket's position
    /// relative to the cursor, which this mode does not represent
    pub unsafe fn reflect_insert(&mut self, b: &Bucket<T>) {
        assert!(b.cell.as_ptr() == self.cell.as_ptr(), "[ghost] reflect_insert: bucket is not in the iterator's table");
        if nondet_bool() {
            self.items += 1;
        }
    }
}
impl<T> Iterator for RawIter<T> {
    type Item = Bucket<T>;
    fn next(&mut self) -> Option<Bucket<T>> {
        if self.items == 0 {
            return None;
        }
        self.items -= 1;
        Some(Bucket { cell: self.cell })
    }
    fn size_hint(&self) -> (usize, Option<usize>) {
        (self.items, Some(self.items))
    }
}
impl<T> ExactSizeIterator for RawIter<T> {}
impl<T> core::iter::FusedIterator for RawIter<T> {}

pub struct RawIntoIter<T> {
    iter: RawIter<T>,
    cell: P<Cell<T>>,
    allocated: bool,
}
unsafe impl<T: Send> Send for RawIntoIter<T> {}
unsafe impl<T: Sync> Sync for RawIntoIter<T> {}
impl<T> RawIntoIter<T> {
    pub fn iter(&self) -> RawIter<T> {
        self.iter.clone()
    }
}
impl<T> Iterator for RawIntoIter<T> {
    type Item = T;
    fn next(&mut self) -> Option<T> {
        unsafe { Some((*self.iter.next()?.cell.as_ptr()).val.as_ptr().read()) }
    }
    fn size_hint(&self) -> (usize, Option<usize>) {
        self.iter.size_hint()
    }
}
impl<T> ExactSizeIterator for RawIntoIter<T> {}
impl<T> core::iter::FusedIterator for RawIntoIter<T> {}
impl<T> Drop for RawIntoIter<T> {
    fn drop(&mut self) {
        unsafe {
            if self.allocated {
                alloc::alloc::dealloc(self.cell.as_ptr() as *mut u8, alloc::alloc::Layout::new::<Cell<T>>());
                LIVE -= 1;
            }
        }
    }
}

pub struct RawDrain<'a, T> {
    iter: RawIter<T>,
    table: RawTable<T>,
    orig: NonNull<RawTable<T>>,
    marker: PhantomData<&'a RawTable<T>>,
}
unsafe impl<T: Send> Send for RawDrain<'_, T> {}
unsafe impl<T: Sync> Sync for RawDrain<'_, T> {}
impl<T> RawDrain<'_, T> {
    pub fn iter(&self) -> RawIter<T> {
        self.iter.clone()
    }
}
impl<T> Iterator for RawDrain<'_, T> {
    type Item = T;
    fn next(&mut self) -> Option<T> {
        unsafe { Some((*self.iter.next()?.cell.as_ptr()).val.as_ptr().read()) }
    }
    fn size_hint(&self) -> (usize, Option<usize>) {
        self.iter.size_hint()
    }
}
impl<T> ExactSizeIterator for RawDrain<'_, T> {}
impl<T> core::iter::FusedIterator for RawDrain<'_, T> {}
impl<T> Drop for RawDrain<'_, T> {
    fn drop(&mut self) {
        unsafe {
            self.table.clear();
            let t = mem::replace(&mut self.table, RawTable::new());
            core::ptr::write(self.orig.as_ptr(), t);
        }
    }
}

// ---------------------------------------------------------------------------------------
// Backdoors for harnesses
// ---------------------------------------------------------------------------------------
impl<T> RawTable<T> {
    /// A table with the given counters (all may be solver variables). `buckets` must be a power
    /// of two >= 4 and `items + tombs <= capacity(buckets)`; both are *assumed* here.
    pub fn verif_counters(buckets: usize, items: usize, tombs: usize, scratch: T) -> Self {
        assume(buckets >= 4 && buckets.is_power_of_two());
        let mut t = Self::alloc_buckets(buckets);
        let cap = sizing::cap_of_mask(buckets - 1);
        assume(items <= cap && tombs <= cap - items);
        unsafe { (*t.cell.as_ptr()).val.as_mut_ptr().write(scratch) };
        t.items = items;
        t.tombs = tombs;
        t.growth_left = cap - items - tombs;
        t
    }
    pub fn verif_growth_left(&self) -> usize {
        self.growth_left
    }
    pub fn verif_tombs(&self) -> usize {
        self.tombs
    }
    pub fn verif_nslots(&self) -> usize {
        self.buckets
    }
    pub fn verif_is_allocated(&self) -> bool {
        self.buckets != 0
    }
    /// the cursor a correct client holds: it counts exactly the table's elements
    pub unsafe fn verif_iter(&self) -> RawIter<T> {
        RawIter { cell: self.cell, items: self.items }
    }
}
impl<T> RawIter<T> {
    pub fn verif_agrees(&self, t: &RawTable<T>) -> bool {
        self.items == t.items && (t.buckets == 0 || self.cell.as_ptr() == t.cell.as_ptr())
    }
    pub fn verif_remaining(&self) -> usize {
        self.items
    }
}
