//! Contract model of hashbrown 0.14's `raw` API (the part griddle uses).
//!
//! This crate is *not* hashbrown. It is a small executable over-approximation of the
//! dependency's contract, written so that CBMC can decide properties of griddle — which is
//! compiled unchanged against it — from arbitrary symbolic table states. See DESIGN.md §3.
//!
//! What is kept faithful (because griddle's correctness depends on it):
//!   * the sizing arithmetic: `include!`d source text of the real crate (`hb_sizing.rs`);
//!   * `RawIter`: a cursor with a cached group mask and a *trusted* `items` count;
//!     `next()` and `reflect_remove()` are transliterations of the real algorithms,
//!     including the pointer-equality behaviour for zero-sized `T`;
//!   * `replace_bucket_with`, `drain`, `into_iter_from`, `clone`, `clone_from_with_hasher`,
//!     `shrink_to`, `reserve`/`try_reserve` (in-place rehash vs resize decision).
//! What is abstracted: placement (lowest free slot, or any free slot with feature
//! `nondet-placement`), tombstone reclamation (nondeterministic per erase), probing.
//! Every slot remembers the hash it was stored under, and `find` checks that a matching
//! element was stored under the hash being looked up (on the real table a mismatch means the
//! probe sequence may miss the element).
//!
//! Unsafe preconditions of the real API are *ghost assertions* here; their messages start
//! with `[ghost]`. Assertions that exist in the real crate only under `debug_assertions`
//! start with `[debug-only]` and are compiled under `cfg!(debug_assertions)` like theirs.
// Under Kani the crate links std so that `assert!` is Kani's override and keeps its message.
#![cfg_attr(not(kani), no_std)]
#![allow(clippy::all, dead_code, static_mut_refs)]
extern crate alloc;

pub mod hash_map {
    /// Placeholder: griddle re-exports this name; never instantiated by the harnesses.
    pub enum DefaultHashBuilder {}
}

#[derive(Clone, PartialEq, Eq, Debug)]
pub enum TryReserveError {
    CapacityOverflow,
    AllocError { layout: alloc::alloc::Layout },
}

#[cfg(kani)]
#[inline(always)]
pub(crate) fn nondet_usize() -> usize {
    kani::any()
}
#[cfg(not(kani))]
pub(crate) fn nondet_usize() -> usize {
    0
}
#[cfg(kani)]
#[inline(always)]
pub(crate) fn nondet_bool() -> bool {
    kani::any()
}
#[cfg(not(kani))]
pub(crate) fn nondet_bool() -> bool {
    true
}
#[cfg(kani)]
#[inline(always)]
pub(crate) fn assume(c: bool) {
    kani::assume(c)
}
#[cfg(not(kani))]
pub(crate) fn assume(c: bool) {
    assert!(c, "model bound exceeded")
}

/// Accounting visible to harnesses (single-threaded; Kani has no threads).
pub mod verif {
    /// live table allocations
    pub static mut LIVE: usize = 0;
    /// table allocations since reset
    pub static mut ALLOCS: usize = 0;
    /// elements hashed *inside the dependency* (resize / rehash_in_place / clone_from re-insert)
    pub static mut REHASH: usize = 0;
    /// elements taken out of a table by `remove` (moves + removals)
    pub static mut REMOVES: usize = 0;
    /// `insert_no_grow`/`insert` calls
    pub static mut INSERTS: usize = 0;
    /// paths cut because a table larger than the model bound was requested
    pub static mut BOUND_CUTS: usize = 0;

    pub fn reset() {
        unsafe {
            ALLOCS = 0;
            REHASH = 0;
            REMOVES = 0;
            INSERTS = 0;
        }
    }
    pub fn live() -> usize {
        unsafe { LIVE }
    }
    pub fn allocs() -> usize {
        unsafe { ALLOCS }
    }
    pub fn rehash() -> usize {
        unsafe { REHASH }
    }
    pub fn removes() -> usize {
        unsafe { REMOVES }
    }
    pub fn inserts() -> usize {
        unsafe { INSERTS }
    }
}

mod sizing {
    use core::alloc::Layout;
    /// The real crate's group width on x86_64 (SSE2); only used by the extracted layout
    /// computation (allocation-size limit), never for iteration.
    pub(crate) struct Group;
    impl Group {
        pub(crate) const WIDTH: usize = 16;
    }
    include!("hb_sizing.rs");

    pub(crate) fn buckets_for(cap: usize) -> Option<usize> {
        capacity_to_buckets(cap)
    }
    pub(crate) fn cap_of_mask(mask: usize) -> usize {
        bucket_mask_to_capacity(mask)
    }
    /// hashbrown's own allocation-limit check for a table of `buckets` buckets of `T`.
    pub(crate) fn layout_ok<T>(buckets: usize) -> bool {
        TableLayout::new::<T>().calculate_layout_for(buckets).is_some()
    }
}

#[cfg(not(feature = "counters"))]
#[path = "raw_slots.rs"]
pub mod raw;

#[cfg(feature = "counters")]
#[path = "raw_counters.rs"]
pub mod raw;
