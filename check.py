#!/usr/bin/env python3
"""Entry point: ./check.py <property-id> [--tier quick|thorough] [--replay FILE]

Decides one property of /verif/properties.jsonl for /repo's *current working tree* by
bounded model checking (Kani's compiler -> CBMC/CaDiCaL), writes evidence/<id>.json, and
exits 0 (held on everything explored) / 1 (VIOLATION, replayed) / 2 (inconclusive).
See DESIGN.md.
"""
import argparse, json, os, sys, time, hashlib

VERIF = os.path.dirname(os.path.abspath(__file__))
sys.path.insert(0, VERIF)
from vlib import runner, suites, report  # noqa: E402


def main():
    ap = argparse.ArgumentParser()
    ap.add_argument("prop")
    ap.add_argument("--tier", default=os.environ.get("VERIF_TIER", "quick"), choices=["quick", "thorough"])
    ap.add_argument("--replay", default=None, help="re-run a recorded counterexample file")
    ap.add_argument("--jobs", type=int, default=int(os.environ.get("VERIF_JOBS", "14")))
    ap.add_argument("--only", default=None, help="comma-separated harness names (debugging)")
    ap.add_argument("--keep-logs", default=None)
    a = ap.parse_args()
    seed = int(os.environ.get("VERIF_SEED", "0") or 0)
    if a.replay:
        sys.exit(report.replay_file(a.replay))
    if a.prop not in suites.PROPS:
        print("unknown or unclaimed property %s" % a.prop)
        sys.exit(2)
    t0 = time.time()
    wd = runner.Workdir(a.prop)
    try:
        rc = report.run_property(a.prop, a.tier, seed, a.jobs, wd, only=a.only, keep_logs=a.keep_logs, t0=t0)
    except runner.Inconclusive as e:
        print("INCONCLUSIVE property=%s: %s" % (a.prop, e))
        rc = 2
    finally:
        wd.cleanup()
    sys.exit(rc)


if __name__ == "__main__":
    main()
