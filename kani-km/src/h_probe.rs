use crate::common::*;
use crate::shapes::*;
#[kani::proof]
#[kani::unwind(34)]
fn probe_a_model_iter() {
    let t: HB<(u8, u8)> = HB::verif_build(8, 0b0101, 0, |_| kani::any(), |kv: &(u8, u8)| kv.0 as u64);
    let mut n = 0;
    let mut it = unsafe { t.iter() };
    while let Some(_) = it.next() { n += 1; }
    assert!(n == 2);
    core::mem::forget(t);
}
#[kani::proof]
#[kani::unwind(34)]
fn probe_b_unsplit_iter() {
    let m = build_kv(U8_3, 1);
    let mut n = 0;
    for _ in m.iter() { n += 1; }
    assert!(n == 3);
    core::mem::forget(m);
}
#[kani::proof]
#[kani::unwind(34)]
fn probe_c_split_iter() {
    let m = build_kv(S8_4A, 1);
    let mut n = 0;
    for _ in m.iter() { n += 1; }
    assert!(n == 4);
    core::mem::forget(m);
}
