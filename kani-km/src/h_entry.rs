//! C12: entry and raw-entry handles stay coherent with the map.
//! The `Entry` enum itself (two dataful variants, niche-encoded) is intractable for CBMC once
//! its handle's `&mut HashMap` is used (measured: > 12 GB), so the handles are obtained
//! through the guarded hooks `verif_occupied_entry` / `verif_vacant_entry`, which build
//! them exactly as `entry()` does; `entry()`'s own dispatch is checked separately
//! (en_dispatch). Raw-entry handles need no hook.
use crate::common::*;
use crate::shapes::*;

macro_rules! harness {
    ($name:ident, $body:ident, $shape:expr) => {
        #[kani::proof]
        #[kani::unwind(34)]
        fn $name() {
            $body($shape)
        }
    };
    ($name:ident, $body:ident, $shape:expr, $j:expr) => {
        #[kani::proof]
        #[kani::unwind(34)]
        fn $name() {
            $body($shape, $j)
        }
    };
}

fn en_dispatch(sh: Shape) {
    let mut m = build_kv(sh, 1);
    assume_distinct(&m);
    let k: u8 = kani::any();
    let present = ref_get(&m, &k).is_some();
    reset_counters();
    let occ = match m.entry(k) {
        Entry::Occupied(_) => true,
        Entry::Vacant(_) => false,
    };
    assert!(occ == present, "[C12] entry(k) is Occupied exactly when k is present");
    assert!(hashes() == 1, "[C02] entry(k) hashed more than the key");
    let occ2 = match m.raw_entry_mut().from_key(&k) {
        RawEntryMut::Occupied(_) => true,
        RawEntryMut::Vacant(_) => false,
    };
    assert!(occ2 == present, "[C12] raw_entry_mut().from_key(k) is Occupied exactly when k is present");
    // the other builder lookups, mutable and immutable
    let h = hash_u8(1, k);
    let occ3 = match m.raw_entry_mut().from_key_hashed_nocheck(h, &k) {
        RawEntryMut::Occupied(_) => true,
        RawEntryMut::Vacant(_) => false,
    };
    let occ4 = match m.raw_entry_mut().from_hash(h, |x| *x == k) {
        RawEntryMut::Occupied(_) => true,
        RawEntryMut::Vacant(_) => false,
    };
    assert!(occ3 == present && occ4 == present, "[C12] raw_entry_mut().from_key_hashed_nocheck / from_hash is Occupied exactly when k is present");
    let want = ref_get(&m, &k);
    let r1 = m.raw_entry().from_key(&k).map(|(kk, vv)| (*kk, *vv));
    let r2 = m.raw_entry().from_key_hashed_nocheck(h, &k).map(|(kk, vv)| (*kk, *vv));
    let r3 = m.raw_entry().from_hash(h, |x| *x == k).map(|(kk, vv)| (*kk, *vv));
    let wantkv = want.map(|v| (k, v));
    assert!(r1 == wantkv && r2 == wantkv && r3 == wantkv, "[C12] raw_entry() lookup disagrees with the contents");
    kani::cover!(present, "cls: occupied");
    kani::cover!(!present, "cls: vacant");
    kani::cover!(true, "reach: end of harness");
    core::mem::forget(m);
}
harness!(en_dispatch__s8_8g0, en_dispatch, S8_8G0);
harness!(en_dispatch__u8_3t, en_dispatch, U8_3T);
harness!(en_dispatch__s8m0_4a, en_dispatch, S8M0_4A);
harness!(en_dispatch__s8_8g4, en_dispatch, S8_8G4);

/// which occupied-handle method the harness exercises (concrete per harness)
#[derive(Clone, Copy, PartialEq)]
enum Occ {
    Read,
    GetMut,
    IntoMut,
    Insert,
    Remove,
    RemoveEntry,
    ReplaceEntry,
    ReplaceKey,
    ReplaceWith,
}

fn en_occupied(sh: Shape, op: Occ) {
    let mut m = build_kv(sh, 1);
    assume_distinct(&m);
    let q: u8 = kani::any();
    let k: u8 = kani::any();
    let w: u8 = kani::any();
    let ret: Option<u8> = kani::any();
    let pre_q = ref_get(&m, &q);
    let sk = scan(&m, &k);
    let pre_k = sk.val;
    let n = m.len();
    let l0 = old_len(&m);
    let mut want_k = pre_k;
    reset_counters();
    match m.verif_occupied_entry(k) {
        None => assert!(pre_k.is_none(), "[C12] no occupied entry for a present key"),
        Some(mut e) => {
            assert!(pre_k.is_some(), "[C12] occupied entry for an absent key");
            assert!(*e.key() == k && Some(*e.get()) == pre_k, "[C12] occupied entry designates a wrong element");
            match op {
                Occ::Read => {}
                Occ::GetMut => {
                    *e.get_mut() = w;
                    assert!(*e.get() == w, "[C12] get() after a write through get_mut() differs");
                    want_k = Some(w);
                }
                Occ::IntoMut => {
                    *e.into_mut() = w;
                    want_k = Some(w);
                }
                Occ::Insert => {
                    assert!(Some(e.insert(ret.unwrap_or(0))) == pre_k, "[C12] OccupiedEntry::insert returned a wrong old value");
                    // the handle stays usable and keeps designating the element
                    assert!(*e.key() == k && *e.get() == ret.unwrap_or(0), "[C12] after OccupiedEntry::insert the handle designates a wrong element");
                    *e.get_mut() = w;
                    want_k = Some(w);
                }
                Occ::Remove => {
                    assert!(Some(e.remove()) == pre_k, "[C12] OccupiedEntry::remove returned a wrong value");
                    want_k = None;
                }
                Occ::RemoveEntry => {
                    assert!(Some(e.remove_entry()) == pre_k.map(|v| (k, v)), "[C12] OccupiedEntry::remove_entry returned a wrong pair");
                    want_k = None;
                }
                Occ::ReplaceEntry => {
                    assert!(Some(e.replace_entry(w)) == pre_k.map(|v| (k, v)), "[C12] replace_entry returned a wrong pair");
                    want_k = Some(w);
                }
                Occ::ReplaceKey => {
                    assert!(e.replace_key() == k, "[C12] replace_key returned a wrong key");
                }
                Occ::ReplaceWith => {
                    // the result is an `Entry` (enum); it is dropped here, its variant is checked through the map
                    let _ = e.replace_entry_with(|kk, vv| {
                        assert!(*kk == k && Some(vv) == pre_k, "[C12] replace_entry_with closure got a wrong element");
                        ret
                    });
                    want_k = ret;
                }
            }
        }
    }
    let sq = scan(&m, &q);
    let want_k = if pre_k.is_some() { want_k } else { None };
    assert!(sq.val == if q == k { want_k } else { pre_q }, "[C12] the map does not reflect what was done through the occupied handle");
    assert!(m.len() == n - if pre_k.is_some() && want_k.is_none() { 1 } else { 0 }, "[C01] len() wrong after an occupied-entry operation");
    assert!(hashes() == 1 && acct::allocs() == 0 && acct::inserts() == 0, "[C02] an occupied-entry operation hashed more than the key, allocated or moved elements");
    assert!(old_len(&m) == l0 - if sk.in_old && pre_k.is_some() && want_k.is_none() { 1 } else { 0 }, "[C03] an occupied-entry operation changed the leftovers unexpectedly");
    if op == Occ::Remove || op == Occ::RemoveEntry {
        post_freed_if_empty(&m, l0);
    }
    post_inv(&m, &sq);
    assert!(m.get(&k).copied() == want_k, "[C12] a later lookup does not see the write made through the handle");
    kani::cover!(pre_k.is_some() && sk.in_old, "cls: handle on an old-table element");
    kani::cover!(pre_k.is_some() && !sk.in_old, "cls: handle on a main-table element");
    kani::cover!(true, "reach: end of harness");
    core::mem::forget(m);
}
harness!(en_occ_read__s8_8g0, en_occupied, S8_8G0, Occ::Read);
harness!(en_occ_get_mut__s8_8g0, en_occupied, S8_8G0, Occ::GetMut);
harness!(en_occ_into_mut__s8_8g4, en_occupied, S8_8G4, Occ::IntoMut);
harness!(en_occ_insert__s8_8g0, en_occupied, S8_8G0, Occ::Insert);
harness!(en_occ_insert__s8_4a, en_occupied, S8_4A, Occ::Insert);
harness!(en_occ_insert__s8_8g4, en_occupied, S8_8G4, Occ::Insert);
harness!(en_occ_remove__s8_8g0, en_occupied, S8_8G0, Occ::Remove);
harness!(en_occ_remove__s8_8g4, en_occupied, S8_8G4, Occ::Remove);
harness!(en_occ_remove__s8_4one, en_occupied, S8_4ONE, Occ::Remove);
harness!(en_occ_remove__s8m0_4a, en_occupied, S8M0_4A, Occ::Remove);
harness!(en_occ_read__s8m0_4a, en_occupied, S8M0_4A, Occ::Read);
harness!(en_occ_remove_entry__s8_4a, en_occupied, S8_4A, Occ::RemoveEntry);
harness!(en_occ_replace_entry__s8_8g0, en_occupied, S8_8G0, Occ::ReplaceEntry);
harness!(en_occ_replace_key__s8_8g4, en_occupied, S8_8G4, Occ::ReplaceKey);
harness!(en_occ_replace_with__s8_8g0, en_occupied, S8_8G0, Occ::ReplaceWith);
harness!(en_occ_replace_with__s8_8g4, en_occupied, S8_8G4, Occ::ReplaceWith);
harness!(en_occ_replace_with__s8_4a, en_occupied, S8_4A, Occ::ReplaceWith);
harness!(en_occ_replace_with__s8_4one, en_occupied, S8_4ONE, Occ::ReplaceWith);
harness!(en_occ_replace_with__u8_3t, en_occupied, U8_3T, Occ::ReplaceWith);

/// VacantEntry::insert: the returned reference designates the new element even when the
/// call started a resize and moved other elements.
fn en_vacant_insert(sh: Shape) {
    let mut m = build_kv(sh, 1);
    assume_distinct(&m);
    let q: u8 = kani::any();
    let k: u8 = kani::any();
    let v: u8 = kani::any();
    let w: u8 = kani::any();
    let pre_q = ref_get(&m, &q);
    kani::assume(ref_get(&m, &k).is_none());
    let n = m.len();
    let cap = m.capacity();
    let l0 = old_len(&m);
    let main_len0 = m.verif_parts().0.len();
    reset_counters();
    {
        let e = m.verif_vacant_entry(k);
        assert!(*e.key() == k, "[C12] VacantEntry::key() wrong");
        let r = e.insert(v);
        assert!(*r == v, "[C12] reference returned by VacantEntry::insert does not designate the new element");
        *r = w;
    }
    assert!(hashes() <= 10 && acct::removes() <= 8 && acct::allocs() <= 1 && acct::rehash() == 0, "[C02] VacantEntry::insert exceeded the per-call work bound");
    let grew = acct::allocs() == 1;
    // the same progress / headroom clauses as for HashMap::insert of a fresh key
    let pending = if l0 > 0 { l0 } else if grew { main_len0 } else { 0 };
    let step = if pending < R_SPEC { pending } else { R_SPEC };
    assert!(old_len(&m) == pending - step, "[C03] a key-adding call did not move min(R, remaining) leftovers");
    if cap > n {
        assert!(!grew, "[C04] inserting a fresh key with capacity() > len() allocated");
    }
    assert!(m.capacity() >= cap, "[C04] capacity() decreased across a key-adding call");
    let sq = scan(&m, &q);
    assert!(sq.val == if q == k { Some(w) } else { pre_q }, "[C12] a write through the reference returned by VacantEntry::insert is not seen by the map");
    assert!(m.len() == n + 1, "[C01] len() wrong after VacantEntry::insert");
    assert!(m.get(&k) == Some(&w), "[C12] a later lookup does not see the write made through the returned reference");
    post_freed_if_empty(&m, usize::MAX);
    post_inv(&m, &sq);
    kani::cover!(grew, "cls: the inserting call started a resize");
    kani::cover!(acct::removes() > 0, "cls: the inserting call moved elements");
    kani::cover!(true, "reach: end of harness");
    core::mem::forget(m);
}
harness!(en_vacant_insert__u0, en_vacant_insert, U0);
harness!(en_vacant_insert__u4f, en_vacant_insert, U4F);
harness!(en_vacant_insert__u8f, en_vacant_insert, U8F);
harness!(en_vacant_insert__s8_4a, en_vacant_insert, S8_4A);
harness!(en_vacant_insert__s8_8g4, en_vacant_insert, S8_8G4);
harness!(en_vacant_insert__s4f_e, en_vacant_insert, S4F_E);
harness!(en_vacant_insert__s8t_4a, en_vacant_insert, S8T_4A);
harness!(en_vacant_insert__s8m0_4a, en_vacant_insert, S8M0_4A);

#[derive(Clone, Copy, PartialEq)]
enum Raw {
    Insert,
    OrInsert,
    OrInsertWith,
    AndModify,
    VacantInsertHashed,
    VacantInsertWithHasher,
    ChainReplaceNoneThenInsert,
    OccMisc,
}

fn en_raw(sh: Shape, op: Raw) {
    let mut m = build_kv(sh, 1);
    assume_distinct(&m);
    let q: u8 = kani::any();
    let k: u8 = kani::any();
    let v: u8 = kani::any();
    let w: u8 = kani::any();
    let pre_q = ref_get(&m, &q);
    let sk = scan(&m, &k);
    let pre_k = sk.val;
    let n = m.len();
    let l0 = old_len(&m);
    let main_len0 = m.verif_parts().0.len();
    let mut want_k = pre_k;
    reset_counters();
    match op {
        Raw::Insert => {
            // RawEntryMut::insert: overwrite or insert; the occupied handle designates the element
            let mut e = m.raw_entry_mut().from_key(&k).insert(k, v);
            assert!(*e.key() == k && *e.get() == v, "[C12] handle returned by RawEntryMut::insert designates a wrong element");
            *e.get_mut() = w;
            want_k = Some(w);
        }
        Raw::OrInsert => {
            let (kk, vv) = m.raw_entry_mut().from_key(&k).or_insert(k, v);
            assert!(*kk == k && *vv == pre_k.unwrap_or(v), "[C12] or_insert returned references to a wrong element");
            *vv = w;
            want_k = Some(w);
        }
        Raw::OrInsertWith => {
            let mut called = false;
            let (kk, vv) = m.raw_entry_mut().from_key_hashed_nocheck(hash_u8(1, k), &k).or_insert_with(|| {
                called = true;
                (k, v)
            });
            assert!(*kk == k && *vv == pre_k.unwrap_or(v), "[C12] or_insert_with returned references to a wrong element");
            *vv = w;
            assert!(called == pre_k.is_none(), "[C12] or_insert_with called the closure for a present key (or not for an absent one)");
            want_k = Some(w);
        }
        Raw::AndModify => {
            let e = m.raw_entry_mut().from_hash(hash_u8(1, k), |x| *x == k).and_modify(|kk, vv| {
                assert!(*kk == k, "[C12] and_modify got a wrong key");
                *vv = w;
            });
            match e {
                RawEntryMut::Occupied(o) => assert!(pre_k.is_some() && *o.get() == w, "[C12] and_modify result wrong"),
                RawEntryMut::Vacant(_) => assert!(pre_k.is_none(), "[C12] and_modify turned an occupied entry vacant"),
            }
            want_k = pre_k.map(|_| w);
        }
        Raw::VacantInsertHashed => {
            kani::assume(pre_k.is_none());
            if let RawEntryMut::Vacant(e) = m.raw_entry_mut().from_key(&k) {
                let (kk, vv) = e.insert_hashed_nocheck(hash_u8(1, k), k, v);
                assert!(*kk == k && *vv == v, "[C12] insert_hashed_nocheck returned references to a wrong element");
                *vv = w;
            } else {
                assert!(false, "[C12] raw entry Occupied for an absent key");
            }
            want_k = Some(w);
        }
        Raw::VacantInsertWithHasher => {
            kani::assume(pre_k.is_none());
            if let RawEntryMut::Vacant(e) = m.raw_entry_mut().from_key(&k) {
                let (kk, vv) = e.insert_with_hasher(hash_u8(1, k), k, v, |x| hash_u8(1, *x));
                assert!(*kk == k && *vv == v, "[C12] insert_with_hasher returned references to a wrong element");
                *vv = w;
            }
            want_k = Some(w);
        }
        Raw::ChainReplaceNoneThenInsert => {
            // replace_entry_with(None) followed by inserting through the returned vacant handle
            match m.raw_entry_mut().from_key(&k).and_replace_entry_with(|_, _| None) {
                RawEntryMut::Vacant(e) => {
                    let (_, vv) = e.insert(k, v);
                    *vv = w;
                }
                RawEntryMut::Occupied(_) => assert!(false, "[C12] and_replace_entry_with(None) left the entry occupied"),
            }
            want_k = Some(w);
        }
        Raw::OccMisc => {
            if let RawEntryMut::Occupied(mut e) = m.raw_entry_mut().from_key(&k) {
                assert!(*e.key() == k && Some(*e.get()) == pre_k, "[C12] raw occupied entry designates a wrong element");
                {
                    let (kk, vv) = e.get_key_value_mut();
                    assert!(*kk == k, "[C12] get_key_value_mut wrong key");
                    *vv = v;
                }
                assert!(e.insert(w) == v, "[C12] RawOccupiedEntryMut::insert returned a wrong old value");
                assert!(e.insert_key(k) == k, "[C12] insert_key returned a wrong key");
                let (kk, vv) = e.into_key_value();
                assert!(*kk == k && *vv == w, "[C12] into_key_value wrong");
                want_k = Some(w);
            } else {
                assert!(pre_k.is_none(), "[C12] raw entry Vacant for a present key");
            }
        }
    }
    let sq = scan(&m, &q);
    assert!(sq.val == if q == k { want_k } else { pre_q }, "[C12] the map does not reflect what was done through the raw entry handle");
    assert!(sq.count <= 1 && scan(&m, &k).count == if want_k.is_some() { 1 } else { 0 }, "[C12] the key is not stored exactly once after the chain");
    assert!(m.len() == n + if pre_k.is_none() && want_k.is_some() { 1 } else { 0 }, "[C01] len() wrong after a raw-entry operation");
    assert!(hashes() <= 10 && acct::removes() <= 9 && acct::allocs() <= 1 && acct::rehash() == 0, "[C02] a raw-entry call exceeded the per-call work bound");
    if pre_k.is_none() && want_k.is_some() {
        // a key was added through the raw-entry API: the same progress as HashMap::insert
        post_progress(&m, l0, main_len0);
    }
    post_inv(&m, &sq);
    assert!(m.get(&k).copied() == want_k, "[C12] a later lookup does not see the write made through the handle");
    kani::cover!(pre_k.is_none() && acct::allocs() == 1, "cls: the inserting call started a resize");
    kani::cover!(pre_k.is_some() && sk.in_old, "cls: handle on an old-table element");
    kani::cover!(true, "reach: end of harness");
    core::mem::forget(m);
}
harness!(en_raw_insert__u4f, en_raw, U4F, Raw::Insert);
harness!(en_raw_insert__s8_8g0, en_raw, S8_8G0, Raw::Insert);
harness!(en_raw_or_insert__u4f, en_raw, U4F, Raw::OrInsert);
harness!(en_raw_or_insert__s8_4a, en_raw, S8_4A, Raw::OrInsert);
harness!(en_raw_or_insert__s8m0_4a, en_raw, S8M0_4A, Raw::OrInsert);
harness!(en_raw_insert__s8m0_4a, en_raw, S8M0_4A, Raw::Insert);
harness!(en_raw_occ_misc__s8m0_4a, en_raw, S8M0_4A, Raw::OccMisc);
harness!(en_raw_or_insert_with__s8_8g4, en_raw, S8_8G4, Raw::OrInsertWith);
harness!(en_raw_or_insert_with__u8f, en_raw, U8F, Raw::OrInsertWith);
harness!(en_raw_and_modify__s8_8g0, en_raw, S8_8G0, Raw::AndModify);
harness!(en_raw_vacant_hashed__u4f, en_raw, U4F, Raw::VacantInsertHashed);
harness!(en_raw_vacant_hashed__s8_4a, en_raw, S8_4A, Raw::VacantInsertHashed);
harness!(en_raw_vacant_with_hasher__u4f, en_raw, U4F, Raw::VacantInsertWithHasher);
harness!(en_raw_vacant_with_hasher__s8_8g4, en_raw, S8_8G4, Raw::VacantInsertWithHasher);
harness!(en_raw_chain__s8_8g0, en_raw, S8_8G0, Raw::ChainReplaceNoneThenInsert);
// en_raw_chain__s8_4one: CBMC ends with VERIFICATION ERROR (solver failure) — not registered
harness!(en_raw_chain__u4f, en_raw, U4F, Raw::ChainReplaceNoneThenInsert);
harness!(en_raw_occ_misc__s8_8g0, en_raw, S8_8G0, Raw::OccMisc);
harness!(en_raw_occ_misc__s8_8g4, en_raw, S8_8G4, Raw::OccMisc);

// ------------------------------------------------------------------ the `Entry` enum itself
// With *concrete* keys (element in main bucket i has key i, in old bucket i key 16 + i; values
// symbolic) `entry(K)` has a concrete outcome and the occupied arm of the enum's own methods
// becomes tractable. This executes `Entry::insert` / `Entry::and_modify` / `Entry::or_insert`
// (occupied arm) and `Entry::key`, which the hook-based harnesses above bypass.
fn build_ck(sh: Shape, id: u8) -> M {
    let hf = |kv: &(u8, u8)| hash_of(id, &kv.0);
    let main: HB<(u8, u8)> = HB::verif_build(sh.mb, sh.mfull, sh.mdel, |i| (i as u8, kani::any()), hf);
    let old = sh.old.map(|o| {
        let t: HB<(u8, u8)> = HB::verif_build(o.b, o.full, o.del, |i| (16 + i as u8, kani::any()), hf);
        let it = unsafe { t.verif_iter_at(o.g) };
        (t, it)
    });
    M::verif_from_parts(S { id }, main, old)
}

fn en_enum_occupied(sh: Shape, p: (u8, u8)) {
    let (k, which) = p;
    let mut m = build_ck(sh, 1);
    let q: u8 = kani::any();
    let v: u8 = kani::any();
    let w: u8 = kani::any();
    let pre_q = ref_get(&m, &q);
    let pre_k = ref_get(&m, &k);
    assert!(pre_k.is_some(), "[harness] the concrete key must be present");
    let n = m.len();
    let mut want_k = pre_k;
    match which {
        0 => {
            // Entry::insert on an occupied entry: the returned handle designates the element
            let mut o = m.entry(k).insert(v);
            assert!(*o.key() == k && *o.get() == v, "[C12] handle returned by Entry::insert designates a wrong element");
            *o.get_mut() = w;
            want_k = Some(w);
        }
        1 => {
            let r = m.entry(k).and_modify(|x| *x = v).or_insert(w);
            assert!(*r == v, "[C12] and_modify().or_insert() on an occupied entry returned a wrong reference");
            *r = w;
            want_k = Some(w);
        }
        _ => {
            let e = m.entry(k);
            assert!(*e.key() == k, "[C12] Entry::key() wrong");
            let r = e.or_insert_with(|| v);
            assert!(Some(*r) == pre_k, "[C12] or_insert_with on an occupied entry returned a wrong reference");
            *r = w;
            want_k = Some(w);
        }
    }
    let sq = scan(&m, &q);
    assert!(sq.val == if q == k { want_k } else { pre_q }, "[C12] the map does not reflect what was done through the handle returned by an Entry method");
    assert!(m.len() == n, "[C01] len() changed by an operation on an occupied entry");
    post_inv(&m, &sq);
    assert!(m.get(&k).copied() == want_k, "[C12] a later lookup does not see the write made through the handle");
    kani::cover!(true, "reach: end of harness");
    core::mem::forget(m);
}
// NOT REGISTERED: even with concrete keys these harnesses do not finish within 10 minutes (the
// symbolic value moves through the two-dataful-variant enum). The `Entry` enum's own methods
// (insert, or_insert*, or_default, and_modify, and_replace_entry_with, key) stay outside the C12
// claim; a seeded change inside `Entry::insert` (seeded/r2_C12) is therefore not detected.
// harness!(en_enum_insert__s8_8g0_k18, en_enum_occupied, S8_8G0, (18, 0));
