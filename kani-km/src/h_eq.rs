//! C14: observable behaviour depends only on contents, not on layout, history or hasher.
//! Two (three) maps in independent INV states with different shapes and hasher ids; their
//! contents are related by assumptions over every stored pair (no key-domain restriction).
use crate::common::*;
use crate::shapes::*;

macro_rules! harness2 {
    ($name:ident, $body:ident, $a:expr, $b:expr) => {
        #[kani::proof]
        #[kani::unwind(34)]
        fn $name() {
            $body($a, $b)
        }
    };
}

/// every pair stored in `a` is stored in `b` (as an assumption)
fn assume_subset(a: &M, b: &M) {
    let (main, old) = a.verif_parts();
    let mut i = 0;
    while i < main.verif_nslots() {
        if let Some(kv) = main.verif_slot(i) {
            kani::assume(ref_get(b, &kv.0) == Some(kv.1));
        }
        i += 1;
    }
    if let Some((ot, _)) = old {
        let mut i = 0;
        while i < ot.verif_nslots() {
            if let Some(kv) = ot.verif_slot(i) {
                kani::assume(ref_get(b, &kv.0) == Some(kv.1));
            }
            i += 1;
        }
    }
}

/// same number of elements + a ⊆ b  ⇒  same contents (keys are pairwise distinct)
fn eq_same(ash: Shape, bsh: Shape) {
    let a = build_kv(ash, 1);
    assume_distinct(&a);
    let b = build_kv(bsh, 2);
    assume_distinct(&b);
    assert!(a.len() == b.len(), "[harness] shapes must hold the same number of elements");
    assume_subset(&a, &b);
    let q: u8 = kani::any();
    assert!(a == b, "[C14] two maps with the same contents compare unequal");
    assert!(b == a, "[C14] == is not symmetric");
    assert!(a == a, "[C14] == is not reflexive");
    assert!(a.len() == b.len() && a.is_empty() == b.is_empty(), "[C14] len() depends on layout");
    assert!(a.get(&q) == b.get(&q), "[C14] get() depends on layout");
    assert!(a.contains_key(&q) == b.contains_key(&q), "[C14] contains_key() depends on layout");
    // iterator multisets: q is yielded the same number of times by both
    let mut ca = 0;
    for (k, _) in a.iter() {
        if *k == q {
            ca += 1;
        }
    }
    let mut cb = 0;
    for (k, _) in b.iter() {
        if *k == q {
            cb += 1;
        }
    }
    assert!(ca == cb, "[C14] iteration depends on layout");
    kani::cover!(true, "reach: end of harness");
    core::mem::forget(a);
    core::mem::forget(b);
}
/// 4 elements: split 2+2 (id 1) vs unsplit with a tombstone (id 2) vs split 1+3 in two groups
pub const E4_U: Shape = unsplit(8, 0b0010_1101, 0b0001_0000);
harness2!(eq_same__s8_4a__u, eq_same, S8_4A, E4_U);
harness2!(eq_same__u__s8_8g0, eq_same, E4_U, S8_8G0);
harness2!(eq_same__s8_8g0__s8_4a, eq_same, S8_8G0, S8_4A);
pub const E2_U: Shape = unsplit(8, 0b0010_0100, 0b0000_0001);
harness2!(eq_same__s8m0_4a__u2, eq_same, S8M0_4A, E2_U);
harness2!(eq_same__u2__s8m0_4a, eq_same, E2_U, S8M0_4A);

/// contents that differ in exactly one value (possibly of an element parked in an old table),
/// or in one key: the maps must compare unequal both ways
fn eq_differ(ash: Shape, bsh: Shape) {
    let a = build_kv(ash, 1);
    assume_distinct(&a);
    let b = build_kv(bsh, 2);
    assume_distinct(&b);
    // a ⊆ b except at one witness key w, where the values differ or b lacks the key
    let w: u8 = kani::any();
    let va = ref_get(&a, &w);
    kani::assume(va.is_some() && ref_get(&b, &w) != va);
    assert!(a != b, "[C14] maps that differ in one key or value compare equal");
    assert!(b != a, "[C14] != is not symmetric");
    kani::cover!(scan(&a, &w).in_old, "cls: the differing element sits in an old table");
    kani::cover!(true, "reach: end of harness");
    core::mem::forget(a);
    core::mem::forget(b);
}
harness2!(eq_differ__s8_4a__u, eq_differ, S8_4A, E4_U);
harness2!(eq_differ__u__s8_8g0, eq_differ, E4_U, S8_8G0);

/// a strict sub-map never equals its super-map, whichever side it is on
fn eq_submap(ash: Shape, bsh: Shape) {
    let a = build_kv(ash, 1);
    assume_distinct(&a);
    let b = build_kv(bsh, 2);
    assume_distinct(&b);
    assert!(a.len() < b.len(), "[harness] the first shape must hold fewer elements");
    assume_subset(&a, &b);
    assert!(a != b, "[C14] a map compares equal to a map that holds one more element");
    assert!(b != a, "[C14] a map compares equal to a strict sub-map of itself");
    kani::cover!(true, "reach: end of harness");
    core::mem::forget(a);
    core::mem::forget(b);
}
harness2!(eq_submap__u8_3t__s8_4a, eq_submap, U8_3T, S8_4A);
harness2!(eq_submap__u0__s8_4one, eq_submap, U0, S8_4ONE);
harness2!(eq_submap__s8_4one__u, eq_submap, S8_4ONE, E4_U);

/// transitivity on three maps with equal contents
#[kani::proof]
#[kani::unwind(34)]
fn eq_transitive() {
    let a = build_kv(S8_4A, 1);
    assume_distinct(&a);
    let b = build_kv(E4_U, 2);
    assume_distinct(&b);
    let c = build_kv(S8_8G0, 3);
    assume_distinct(&c);
    let ab = a == b;
    let bc = b == c;
    if ab && bc {
        assert!(a == c, "[C14] == is not transitive");
    }
    kani::cover!(ab && bc, "cls: a == b == c");
    kani::cover!(true, "reach: end of harness");
    core::mem::forget((a, b, c));
}
