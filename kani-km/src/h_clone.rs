//! C11: clone / clone_from produce an equal, fully independent map; clone_from discards the
//! destination's previous contents (its old table included) and adopts the source's hasher.
//! Oracles are the property's: contents, len, hasher id, stored-hash consistency with the adopted
//! builder (I6: every lookup succeeds), independence. Whether the copy is itself mid-resize, and
//! which builder computed which intermediate hash, is not constrained.
use crate::common::*;
use crate::shapes::*;

macro_rules! harness2 {
    ($name:ident, $body:ident, $a:expr, $b:expr) => {
        #[kani::proof]
        #[kani::unwind(34)]
        fn $name() {
            $body($a, $b)
        }
    };
}

fn same_parts(a: &Scan<u8>, b: &Scan<u8>) -> bool {
    a.val == b.val && a.in_old == b.in_old && a.idx == b.idx && a.nfull_main == b.nfull_main && a.nfull_old == b.nfull_old && a.count == b.count
}

fn independent(a: &M, b: &M) {
    let (ma, oa) = a.verif_parts();
    let (mb, ob) = b.verif_parts();
    assert!(!ma.verif_same_alloc(mb), "[C11] the two maps share a table allocation");
    if let Some((ta, _)) = oa {
        assert!(!ta.verif_same_alloc(mb), "[C11] the two maps share a table allocation");
        if let Some((tb, _)) = ob {
            assert!(!ta.verif_same_alloc(tb), "[C11] the two maps share a table allocation");
        }
    }
    if let Some((tb, _)) = ob {
        assert!(!tb.verif_same_alloc(ma), "[C11] the two maps share a table allocation");
    }
}

fn cl_clone(sh: Shape, _unused: Shape) {
    let src = build_kv(sh, 1);
    assume_distinct(&src);
    let q: u8 = kani::any();
    let s0 = scan(&src, &q);
    let n = src.len();
    reset_counters();
    let mut dst = src.clone();
    let sd = scan(&dst, &q);
    assert!(sd.val == s0.val, "[C11] the clone does not hold exactly the source's pairs");
    assert!(dst.len() == n, "[C11] the clone's len() differs from the source's");
    assert!(dst.hasher().id == 1, "[C11] the clone does not carry the source's hasher");
    post_inv_multi(&dst, &sd);
    let s1 = scan(&src, &q);
    assert!(same_parts(&s0, &s1) && src.len() == n, "[C11] clone changed the source");
    independent(&src, &dst);
    assert!(dst.get(&q).copied() == s0.val, "[C11] a lookup in the clone fails");
    // divergent history: an operation on the clone is not observable through the source
    let k: u8 = kani::any();
    let v: u8 = kani::any();
    let rm: bool = kani::any();
    if rm {
        let _ = dst.remove(&k);
    } else {
        let _ = dst.insert(k, v);
    }
    let s2 = scan(&src, &q);
    assert!(same_parts(&s0, &s2), "[C11] an operation on the clone is observable through the source");
    kani::cover!(is_split(&src) && n > 0, "cls: cloned a map mid-resize");
    kani::cover!(true, "reach: end of harness");
    core::mem::forget(src);
    core::mem::forget(dst);
}
harness2!(cl_clone__s8_4a, cl_clone, S8_4A, U0);
harness2!(cl_clone__s8_8g4, cl_clone, S8_8G4, U0);
harness2!(cl_clone__u8_3t, cl_clone, U8_3T, U0);
harness2!(cl_clone__s8_e, cl_clone, S8_E, U0);
harness2!(cl_clone__u0, cl_clone, U0, U0);
harness2!(cl_clone__s8m0_4a, cl_clone, S8M0_4A, U0);

fn cl_clone_from(ssh: Shape, dsh: Shape) {
    let src = build_kv(ssh, 1);
    assume_distinct(&src);
    let mut dst = build_kv(dsh, 2);
    assume_distinct(&dst);
    let q: u8 = kani::any();
    let s0 = scan(&src, &q);
    let n = src.len();
    reset_counters();
    dst.clone_from(&src);
    let sd = scan(&dst, &q);
    assert!(sd.val == s0.val, "[C11] after clone_from the destination does not hold exactly the source's pairs");
    assert!(dst.len() == n, "[C11] after clone_from the destination's len() differs from the source's (previous contents survived?)");
    assert!(sd.nfull_main + sd.nfull_old == n, "[C11] clone_from kept elements of the destination's previous contents");
    assert!(dst.hasher().id == 1, "[C11] clone_from did not adopt the source's hasher");
    post_inv_multi(&dst, &sd);
    assert!(acct::live() <= 3, "[C03] more tables alive than source (<= 2) + destination (1)");
    let s1 = scan(&src, &q);
    assert!(same_parts(&s0, &s1) && src.len() == n, "[C11] clone_from changed the source");
    independent(&src, &dst);
    assert!(dst.get(&q).copied() == s0.val, "[C11] a lookup in the destination fails after clone_from");
    let k: u8 = kani::any();
    let v: u8 = kani::any();
    let _ = dst.insert(k, v);
    let s2 = scan(&src, &q);
    assert!(same_parts(&s0, &s2), "[C11] an operation on the destination is observable through the source");
    kani::cover!(is_split(&src), "cls: source mid-resize");
    kani::cover!(true, "reach: end of harness");
    core::mem::forget(src);
    core::mem::forget(dst);
}
harness2!(cl_clone_from__s8_4a__s8_4a, cl_clone_from, S8_4A, S8_4A);
harness2!(cl_clone_from__s8_4a__u0, cl_clone_from, S8_4A, U0);
harness2!(cl_clone_from__u8_3t__s8_8g4, cl_clone_from, U8_3T, S8_8G4);
harness2!(cl_clone_from__s8_8g4__u4f, cl_clone_from, S8_8G4, U4F);
harness2!(cl_clone_from__u0__s8_4a, cl_clone_from, U0, S8_4A);
harness2!(cl_clone_from__s8_4one__u16_2, cl_clone_from, S8_4ONE, U16_2);
harness2!(cl_clone_from__s8_e__s8_e, cl_clone_from, S8_E, S8_E);
// destination allocation reused (different bucket count, capacity >= source main len) while the
// leftovers of the source do not fit without growing
harness2!(cl_clone_from__s8_4a__u4f, cl_clone_from, S8_4A, U4F);
// source whose main table is empty while leftovers remain (just reserved, or main emptied by removals)
harness2!(cl_clone_from__s8m0_4a__s8_4a, cl_clone_from, S8M0_4A, S8_4A);
harness2!(cl_clone_from__s8m0_4a__u0, cl_clone_from, S8M0_4A, U0);
harness2!(cl_clone_from__s8t_4a__u16_2, cl_clone_from, S8T_4A, U16_2);
