//! C16: serde round-trip. A recording Serializer (declared length + the u8 stream) and a
//! replaying Deserializer stand for "any data format"; no formatting code is involved.
use crate::common::*;
use crate::shapes::*;
use core::fmt;
use serde_::de::{self, DeserializeSeed, Deserializer, MapAccess, SeqAccess, Visitor};
use serde_::ser::{self, Impossible, Serialize, SerializeMap, SerializeSeq, Serializer};
use serde_::Deserialize;

const CAP: usize = 24;

#[derive(Debug)]
pub struct E;
impl fmt::Display for E {
    fn fmt(&self, _f: &mut fmt::Formatter<'_>) -> fmt::Result {
        Ok(())
    }
}
impl std::error::Error for E {}
impl ser::Error for E {
    fn custom<T: fmt::Display>(_msg: T) -> Self {
        E
    }
}
impl de::Error for E {
    fn custom<T: fmt::Display>(_msg: T) -> Self {
        E
    }
}

pub struct Rec {
    declared: Option<usize>,
    is_map: bool,
    n: usize,
    bytes: [u8; CAP],
}
impl Rec {
    fn new() -> Self {
        Rec { declared: None, is_map: false, n: 0, bytes: [0; CAP] }
    }
}

macro_rules! refuse {
    ($($f:ident: $t:ty),*) => { $( fn $f(self, _v: $t) -> Result<(), E> { Err(E) } )* };
}

impl<'a> Serializer for &'a mut Rec {
    type Ok = ();
    type Error = E;
    type SerializeSeq = Self;
    type SerializeTuple = Impossible<(), E>;
    type SerializeTupleStruct = Impossible<(), E>;
    type SerializeTupleVariant = Impossible<(), E>;
    type SerializeMap = Self;
    type SerializeStruct = Impossible<(), E>;
    type SerializeStructVariant = Impossible<(), E>;

    fn serialize_u8(self, v: u8) -> Result<(), E> {
        assert!(self.n < CAP, "[harness] record buffer too small");
        self.bytes[self.n] = v;
        self.n += 1;
        Ok(())
    }
    refuse!(serialize_bool: bool, serialize_i8: i8, serialize_i16: i16, serialize_i32: i32, serialize_i64: i64,
            serialize_u16: u16, serialize_u32: u32, serialize_u64: u64, serialize_f32: f32, serialize_f64: f64,
            serialize_char: char, serialize_str: &str, serialize_bytes: &[u8]);
    fn collect_str<T: ?Sized + fmt::Display>(self, _v: &T) -> Result<(), E> {
        Err(E)
    }
    fn serialize_none(self) -> Result<(), E> {
        Err(E)
    }
    fn serialize_some<T: ?Sized + Serialize>(self, _v: &T) -> Result<(), E> {
        Err(E)
    }
    fn serialize_unit(self) -> Result<(), E> {
        Ok(())
    }
    fn serialize_unit_struct(self, _n: &'static str) -> Result<(), E> {
        Err(E)
    }
    fn serialize_unit_variant(self, _n: &'static str, _i: u32, _v: &'static str) -> Result<(), E> {
        Err(E)
    }
    fn serialize_newtype_struct<T: ?Sized + Serialize>(self, _n: &'static str, _v: &T) -> Result<(), E> {
        Err(E)
    }
    fn serialize_newtype_variant<T: ?Sized + Serialize>(self, _n: &'static str, _i: u32, _v: &'static str, _x: &T) -> Result<(), E> {
        Err(E)
    }
    fn serialize_seq(self, len: Option<usize>) -> Result<Self, E> {
        self.declared = len;
        self.is_map = false;
        Ok(self)
    }
    fn serialize_tuple(self, _len: usize) -> Result<Self::SerializeTuple, E> {
        Err(E)
    }
    fn serialize_tuple_struct(self, _n: &'static str, _len: usize) -> Result<Self::SerializeTupleStruct, E> {
        Err(E)
    }
    fn serialize_tuple_variant(self, _n: &'static str, _i: u32, _v: &'static str, _len: usize) -> Result<Self::SerializeTupleVariant, E> {
        Err(E)
    }
    fn serialize_map(self, len: Option<usize>) -> Result<Self, E> {
        self.declared = len;
        self.is_map = true;
        Ok(self)
    }
    fn serialize_struct(self, _n: &'static str, _len: usize) -> Result<Self::SerializeStruct, E> {
        Err(E)
    }
    fn serialize_struct_variant(self, _n: &'static str, _i: u32, _v: &'static str, _len: usize) -> Result<Self::SerializeStructVariant, E> {
        Err(E)
    }
}
impl<'a> SerializeSeq for &'a mut Rec {
    type Ok = ();
    type Error = E;
    fn serialize_element<T: ?Sized + Serialize>(&mut self, v: &T) -> Result<(), E> {
        v.serialize(&mut **self)
    }
    fn end(self) -> Result<(), E> {
        Ok(())
    }
}
impl<'a> SerializeMap for &'a mut Rec {
    type Ok = ();
    type Error = E;
    fn serialize_key<T: ?Sized + Serialize>(&mut self, k: &T) -> Result<(), E> {
        k.serialize(&mut **self)
    }
    fn serialize_value<T: ?Sized + Serialize>(&mut self, v: &T) -> Result<(), E> {
        v.serialize(&mut **self)
    }
    fn end(self) -> Result<(), E> {
        Ok(())
    }
}

/// replays a record
pub struct Replay<'a> {
    rec: &'a Rec,
    i: usize,
}
struct U8De(u8);
impl<'de> Deserializer<'de> for U8De {
    type Error = E;
    fn deserialize_any<V: Visitor<'de>>(self, v: V) -> Result<V::Value, E> {
        v.visit_u8(self.0)
    }
    serde_::forward_to_deserialize_any! {
        bool i8 i16 i32 i64 u8 u16 u32 u64 f32 f64 char str string bytes byte_buf option unit unit_struct
        newtype_struct seq tuple tuple_struct map struct enum identifier ignored_any
    }
}
impl<'de, 'a> Deserializer<'de> for &'a mut Replay<'a> {
    type Error = E;
    fn deserialize_any<V: Visitor<'de>>(self, _v: V) -> Result<V::Value, E> {
        Err(E)
    }
    fn deserialize_map<V: Visitor<'de>>(self, v: V) -> Result<V::Value, E> {
        v.visit_map(self)
    }
    fn deserialize_seq<V: Visitor<'de>>(self, v: V) -> Result<V::Value, E> {
        v.visit_seq(self)
    }
    serde_::forward_to_deserialize_any! {
        bool i8 i16 i32 i64 u8 u16 u32 u64 f32 f64 char str string bytes byte_buf option unit unit_struct
        newtype_struct tuple tuple_struct struct enum identifier ignored_any
    }
}
impl<'de, 'a> MapAccess<'de> for &'a mut Replay<'a> {
    type Error = E;
    fn next_key_seed<K: DeserializeSeed<'de>>(&mut self, seed: K) -> Result<Option<K::Value>, E> {
        if self.i >= self.rec.n {
            return Ok(None);
        }
        let b = self.rec.bytes[self.i];
        self.i += 1;
        seed.deserialize(U8De(b)).map(Some)
    }
    fn next_value_seed<V: DeserializeSeed<'de>>(&mut self, seed: V) -> Result<V::Value, E> {
        let b = self.rec.bytes[self.i];
        self.i += 1;
        seed.deserialize(U8De(b))
    }
    fn size_hint(&self) -> Option<usize> {
        Some((self.rec.n - self.i) / 2)
    }
}
impl<'de, 'a> SeqAccess<'de> for &'a mut Replay<'a> {
    type Error = E;
    fn next_element_seed<T: DeserializeSeed<'de>>(&mut self, seed: T) -> Result<Option<T::Value>, E> {
        if self.i >= self.rec.n {
            return Ok(None);
        }
        let b = self.rec.bytes[self.i];
        self.i += 1;
        seed.deserialize(U8De(b)).map(Some)
    }
    fn size_hint(&self) -> Option<usize> {
        Some(self.rec.n - self.i)
    }
}

macro_rules! harness {
    ($name:ident, $body:ident, $shape:expr) => {
        #[kani::proof]
        #[kani::unwind(34)]
        fn $name() {
            $body($shape)
        }
    };
}
macro_rules! harness2 {
    ($name:ident, $body:ident, $a:expr, $b:expr) => {
        #[kani::proof]
        #[kani::unwind(34)]
        fn $name() {
            $body($a, $b)
        }
    };
}

// The round trip is decided in two halves that compose: (1) serialising any INV state emits
// the declared length and each element exactly once in iteration order — hence a sequence of
// pairwise different keys; (2) deserialising ANY record (symbolic keys, duplicates allowed)
// yields the map a sequential insert of that record yields. A single harness doing both does
// not finish under CBMC (> 15 min).
fn sd_ser_map(sh: Shape) {
    let m = build_kv(sh, 1);
    assume_distinct(&m);
    let q: u8 = kani::any();
    let pre_q = ref_get(&m, &q);
    let n = m.len();
    let mut rec = Rec::new();
    assert!(m.serialize(&mut rec).is_ok(), "[C16] serialising a map failed");
    assert!(rec.is_map && rec.declared == Some(n), "[C16] serialisation does not declare the map's exact length");
    assert!(rec.n == 2 * n, "[C16] serialisation does not emit each element exactly once");
    let mut i = 0;
    let mut seen = 0;
    for (k, v) in m.iter() {
        assert!(rec.bytes[2 * i] == *k && rec.bytes[2 * i + 1] == *v, "[C16] serialised entries are not the map's entries in iteration order");
        if *k == q {
            seen += 1;
            assert!(Some(*v) == pre_q, "[C16] serialised value differs from the stored one");
        }
        i += 1;
    }
    assert!(i == n && seen == if pre_q.is_some() { 1 } else { 0 }, "[C16] serialisation does not emit each element exactly once");
    kani::cover!(is_split(&m) && n > 0, "cls: serialised a map mid-resize");
    kani::cover!(true, "reach: end of harness");
    core::mem::forget(m);
}
harness!(sd_ser_map__s8_4one, sd_ser_map, S8_4ONE);
harness!(sd_ser_map__s8_8g4, sd_ser_map, S8_8G4);
harness!(sd_ser_map__s8_4a, sd_ser_map, S8_4A);
harness!(sd_ser_map__u0, sd_ser_map, U0);
harness!(sd_ser_map__u8_3t, sd_ser_map, U8_3T);
harness!(sd_ser_map__s8_e, sd_ser_map, S8_E);
harness!(sd_ser_map__s8m0_4a, sd_ser_map, S8M0_4A);

type Z = HashSet<u8, S>;
fn sd_ser_set(sh: Shape) {
    let s = Z::verif_from_map({
        let m = build::<u8, ()>(sh, 1);
        assume_distinct(&m);
        m
    });
    let q: u8 = kani::any();
    let in_q = ref_get(s.verif_map(), &q).is_some();
    let n = s.len();
    let mut rec = Rec::new();
    assert!(s.serialize(&mut rec).is_ok(), "[C16] serialising a set failed");
    assert!(!rec.is_map && rec.declared == Some(n) && rec.n == n, "[C16] set serialisation does not declare/emit exactly len() elements");
    let mut i = 0;
    let mut seen = 0;
    for v in s.iter() {
        assert!(rec.bytes[i] == *v, "[C16] serialised elements are not the set's elements in iteration order");
        if *v == q {
            seen += 1;
        }
        i += 1;
    }
    assert!(seen == if in_q { 1 } else { 0 }, "[C16] set serialisation does not emit each element exactly once");
    kani::cover!(true, "reach: end of harness");
    core::mem::forget(s);
}
harness!(sd_ser_set__s8_8g4, sd_ser_set, S8_8G4);
harness!(sd_ser_set__s8_4a, sd_ser_set, S8_4A);
harness!(sd_ser_set__s8m0_4a, sd_ser_set, S8M0_4A);

/// a record of `n` entries with symbolic bytes
fn any_record(n: usize, is_map: bool) -> Rec {
    let mut rec = Rec::new();
    rec.is_map = is_map;
    rec.declared = Some(n);
    let mut i = 0;
    let len = if is_map { 2 * n } else { n };
    while i < len {
        rec.bytes[i] = kani::any();
        i += 1;
    }
    rec.n = len;
    rec
}
/// the value a sequential insert of the record gives key q (last entry wins)
fn rec_get(rec: &Rec, q: u8) -> Option<u8> {
    let mut r = None;
    let mut i = 0;
    while 2 * i < rec.n {
        if rec.bytes[2 * i] == q {
            r = Some(rec.bytes[2 * i + 1]);
        }
        i += 1;
    }
    r
}

fn sd_de_map(n: usize) {
    let rec = any_record(n, true);
    let q: u8 = kani::any();
    let mut rp = Replay { rec: &rec, i: 0 };
    let d: M = match M::deserialize(&mut rp) {
        Ok(d) => d,
        Err(_) => {
            assert!(false, "[C16] deserialising a record failed");
            return;
        }
    };
    let sd = scan(&d, &q);
    assert!(sd.val == rec_get(&rec, q), "[C16] the deserialised map differs from the record (sequential-insert semantics)");
    assert!(sd.count <= 1 && d.len() == sd.nfull_main + sd.nfull_old, "[C16] deserialised map stores a key twice or miscounts");
    post_inv(&d, &sd);
    kani::cover!(d.len() == n && n > 0, "cls: all keys of the record distinct");
    kani::cover!(d.len() < n, "cls: record with a repeated key");
    kani::cover!(true, "reach: end of harness");
    core::mem::forget(d);
}
#[kani::proof]
#[kani::unwind(34)]
fn sd_de_map__n0() {
    sd_de_map(0)
}
#[kani::proof]
#[kani::unwind(34)]
fn sd_de_map__n2() {
    sd_de_map(2)
}
#[kani::proof]
#[kani::unwind(34)]
fn sd_de_map__n3() {
    sd_de_map(3)
}

fn sd_de_set_in_place_empty(dsh: Shape) {
    let rec = any_record(0, false);
    let q: u8 = kani::any();
    let mut dst = Z::verif_from_map({
        let m = build::<u8, ()>(dsh, 0);
        assume_distinct(&m);
        m
    });
    let mut rp = Replay { rec: &rec, i: 0 };
    assert!(Z::deserialize_in_place(&mut rp, &mut dst).is_ok(), "[C16] deserialize_in_place failed");
    let sd = scan(dst.verif_map(), &q);
    assert!(sd.val.is_none() && dst.len() == 0 && sd.nfull_main + sd.nfull_old == 0, "[C16] deserialize_in_place of an empty record left previous elements in the destination");
    post_inv(dst.verif_map(), &sd);
    kani::cover!(true, "reach: end of harness");
    core::mem::forget(dst);
}
harness!(sd_de_set_in_place_empty__s8_4a, sd_de_set_in_place_empty, S8_4A);
harness!(sd_de_set_in_place_empty__u8_3t, sd_de_set_in_place_empty, U8_3T);

fn sd_de_set_in_place(dsh: Shape) {
    let rec = any_record(2, false);
    let q: u8 = kani::any();
    let in_rec = rec.bytes[0] == q || rec.bytes[1] == q;
    let mut dst = Z::verif_from_map({
        let m = build::<u8, ()>(dsh, 0);
        assume_distinct(&m);
        m
    });
    let mut rp = Replay { rec: &rec, i: 0 };
    assert!(Z::deserialize_in_place(&mut rp, &mut dst).is_ok(), "[C16] deserialize_in_place failed");
    let sd = scan(dst.verif_map(), &q);
    assert!(sd.val.is_some() == in_rec, "[C16] deserialize_in_place did not replace the previous contents entirely with the record's");
    let want_len = if rec.bytes[0] == rec.bytes[1] { 1 } else { 2 };
    assert!(dst.len() == want_len && sd.nfull_main + sd.nfull_old == want_len, "[C16] elements of the destination's previous contents survived deserialize_in_place");
    post_inv(dst.verif_map(), &sd);
    kani::cover!(true, "reach: end of harness");
    core::mem::forget(dst);
}
harness!(sd_de_set_in_place__s8_4a, sd_de_set_in_place, S8_4A);
harness!(sd_de_set_in_place__s8_e, sd_de_set_in_place, S8_E);
harness!(sd_de_set_in_place__u0, sd_de_set_in_place, U0);
harness!(sd_de_set_in_place__u4f, sd_de_set_in_place, U4F);
harness!(sd_de_set_in_place__s8m0_4a, sd_de_set_in_place, S8M0_4A);
