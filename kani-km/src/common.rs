//! Shared infrastructure: hasher with an id and a call counter, symbolic-state builders from
//! concrete shapes, the representation invariant INV, and the extensional reference map.
use core::hash::{BuildHasher, Hash, Hasher};

pub use griddle::hash_map::{Entry, RawEntryMut};
pub use griddle::{HashMap, HashSet};
pub use hashbrown::raw::{RawIter as HBIter, RawTable as HB};
pub use hashbrown::verif as acct;

#[cfg(not(feature = "counters"))]
pub use hashbrown::raw::{MAXB, W};

/// The quota the property text names (8 normally; 4 in the crate's own `cfg(miri)` build).
#[cfg(not(miri))]
pub const R_SPEC: usize = 8;
#[cfg(miri)]
pub const R_SPEC: usize = 4;

// ---------------------------------------------------------------------------------------
// Hasher: H_id(k) = k*31 ^ id ^ 0x100 for u8-like keys, `id | 0x8000` for keys that write
// nothing (zero-sized). Two builder ids disagree on every key.
// ---------------------------------------------------------------------------------------
pub static mut HASHES: usize = 0;
/// bit i set = `build_hasher()` was called on a builder with id i since the last reset
pub static mut IDS_USED: u32 = 0;

pub fn reset_counters() {
    unsafe {
        HASHES = 0;
        IDS_USED = 0;
    }
    acct::reset();
}
pub fn hashes() -> usize {
    unsafe { HASHES }
}
pub fn ids_used() -> u32 {
    unsafe { IDS_USED }
}

#[derive(Clone, Debug, Default, PartialEq, Eq)]
pub struct S {
    pub id: u8,
}
pub struct H {
    id: u64,
    acc: u64,
}
impl Hasher for H {
    #[inline]
    fn finish(&self) -> u64 {
        self.acc
    }
    #[inline]
    fn write(&mut self, bytes: &[u8]) {
        // only single-byte keys are used by the harnesses; keep the loop trivial for CBMC
        if !bytes.is_empty() {
            self.write_u8(bytes[0]);
        }
    }
    #[inline]
    fn write_u8(&mut self, b: u8) {
        self.acc = ((b as u64) * 31) ^ self.id ^ 0x100;
    }
}
impl BuildHasher for S {
    type Hasher = H;
    #[inline]
    fn build_hasher(&self) -> H {
        unsafe {
            HASHES += 1;
            IDS_USED |= 1u32 << (self.id & 31);
        }
        H {
            id: self.id as u64,
            acc: (self.id as u64) | 0x8000,
        }
    }
}
#[inline]
pub fn hash_u8(id: u8, k: u8) -> u64 {
    ((k as u64) * 31) ^ (id as u64) ^ 0x100
}
/// the hash of `k` under builder `id`, computed *without* touching the counters
pub fn hash_of<K: Hash>(id: u8, k: &K) -> u64 {
    let mut h = H {
        id: id as u64,
        acc: (id as u64) | 0x8000,
    };
    k.hash(&mut h);
    h.finish()
}

// ---------------------------------------------------------------------------------------
// Shapes: layouts are concrete, contents symbolic (DESIGN.md §3.6).
// ---------------------------------------------------------------------------------------
#[derive(Clone, Copy)]
pub struct Old {
    pub b: usize,
    pub full: usize,
    pub del: usize,
    /// group the cached iterator is at (multiple of W); no FULL bucket precedes it
    pub g: usize,
}
#[derive(Clone, Copy)]
pub struct Shape {
    /// main-table buckets (0 = never allocated)
    pub mb: usize,
    pub mfull: usize,
    pub mdel: usize,
    pub old: Option<Old>,
}
pub const fn unsplit(mb: usize, mfull: usize, mdel: usize) -> Shape {
    Shape { mb, mfull, mdel, old: None }
}
pub const fn split(mb: usize, mfull: usize, mdel: usize, b: usize, full: usize, del: usize, g: usize) -> Shape {
    Shape { mb, mfull, mdel, old: Some(Old { b, full, del, g }) }
}

pub type M = HashMap<u8, u8, S>;

#[cfg(all(kani, not(feature = "counters")))]
pub mod sym {
    use super::*;

    /// Arbitrary map with the given concrete layout; keys/values are solver variables.
    /// The shape must satisfy the headroom invariant I4 (checked concretely here).
    pub fn build<K, V>(sh: Shape, id: u8) -> HashMap<K, V, S>
    where
        K: Hash + kani::Arbitrary,
        V: kani::Arbitrary,
    {
        let hf = |kv: &(K, V)| hash_of(id, &kv.0);
        let main: HB<(K, V)> = if sh.mb == 0 {
            HB::new()
        } else {
            HB::verif_build(sh.mb, sh.mfull, sh.mdel, |_| kani::any(), hf)
        };
        let old = match sh.old {
            None => None,
            Some(o) => {
                assert!(o.g % W == 0 && o.full & ((1usize << o.g) - 1) == 0, "[harness] FULL bucket before the cursor");
                let t: HB<(K, V)> = HB::verif_build(o.b, o.full, o.del, |_| kani::any(), hf);
                let l = t.len();
                let r = HashMap::<K, V, S>::VERIF_R;
                assert!(
                    main.verif_growth_left() >= l + (l + r - 1) / r,
                    "[harness] shape violates the headroom invariant I4"
                );
                let it = unsafe { t.verif_iter_at(o.g) };
                Some((t, it))
            }
        };
        HashMap::verif_from_parts(S { id }, main, old)
    }

    pub fn build_kv(sh: Shape, id: u8) -> M {
        build::<u8, u8>(sh, id)
    }
}
#[cfg(all(kani, not(feature = "counters")))]
pub use sym::*;

#[cfg(not(feature = "counters"))]
pub mod slots {
    use super::*;

    /// What one pass over both tables sees of the witness key `q` (read off the parts through
    /// the model's backdoor, never through griddle).
    pub struct Scan<V> {
        /// stored copies of `q`
        pub count: usize,
        /// the reference map's value for `q`
        pub val: Option<V>,
        pub in_old: bool,
        /// slot index of `q` in its table
        pub idx: usize,
        /// I6: every element sits under its key's hash for the map's current builder
        pub hash_ok: bool,
        pub nfull_main: usize,
        pub nfull_old: usize,
    }

    fn scan_table<K: Eq + Hash, V: Copy>(t: &HB<(K, V)>, id: u8, q: &K, old: bool, sc: &mut Scan<V>) {
        let n = t.verif_nslots();
        let mut i = 0;
        while i < n {
            if let Some(kv) = t.verif_slot(i) {
                if old {
                    sc.nfull_old += 1;
                } else {
                    sc.nfull_main += 1;
                }
                if t.verif_hash(i) != hash_of(id, &kv.0) {
                    sc.hash_ok = false;
                }
                if kv.0 == *q {
                    sc.count += 1;
                    sc.val = Some(kv.1);
                    sc.in_old = old;
                    sc.idx = i;
                }
            }
            i += 1;
        }
    }

    pub fn scan<K: Eq + Hash, V: Copy>(m: &HashMap<K, V, S>, q: &K) -> Scan<V> {
        let (main, old) = m.verif_parts();
        let id = m.hasher().id;
        let mut sc = Scan { count: 0, val: None, in_old: false, idx: 0, hash_ok: true, nfull_main: 0, nfull_old: 0 };
        scan_table(main, id, q, false, &mut sc);
        if let Some((ot, _)) = old {
            scan_table(ot, id, q, true, &mut sc);
        }
        sc
    }

    pub fn ref_get<K: Eq + Hash, V: Copy>(m: &HashMap<K, V, S>, q: &K) -> Option<V> {
        scan(m, q).val
    }

    #[cfg(kani)]
    fn assume_distinct_tt<K: Eq, V>(a: &HB<(K, V)>, b: &HB<(K, V)>, same: bool) {
        let na = a.verif_nslots();
        let nb = b.verif_nslots();
        let mut i = 0;
        while i < na {
            if let Some(x) = a.verif_slot(i) {
                let mut j = if same { i + 1 } else { 0 };
                while j < nb {
                    if let Some(y) = b.verif_slot(j) {
                        kani::assume(x.0 != y.0);
                    }
                    j += 1;
                }
            }
            i += 1;
        }
    }

    /// I3 as an assumption: all stored keys pairwise different.
    #[cfg(kani)]
    pub fn assume_distinct<K: Eq, V>(m: &HashMap<K, V, S>) {
        let (main, old) = m.verif_parts();
        assume_distinct_tt(main, main, true);
        if let Some((ot, _)) = old {
            assume_distinct_tt(ot, ot, true);
            assume_distinct_tt(main, ot, false);
        }
    }

    pub fn old_len<K, V>(m: &HashMap<K, V, S>) -> usize {
        match m.verif_parts().1 {
            Some((ot, _)) => ot.len(),
            None => 0,
        }
    }
    pub fn is_split<K, V>(m: &HashMap<K, V, S>) -> bool {
        m.verif_parts().1.is_some()
    }

    /// INV after a call, as tagged assertions (DESIGN.md §3.4); `sc` = scan(m, witness).
    pub fn post_inv<K: Eq + Hash, V: Copy>(m: &HashMap<K, V, S>, sc: &Scan<V>) {
        post_inv_multi(m, sc);
        assert!(acct::live() <= 2, "[C03] more than two backing tables are alive");
    }

    /// INV for harnesses holding several maps (no global live-table bound)
    pub fn post_inv_multi<K: Eq + Hash, V: Copy>(m: &HashMap<K, V, S>, sc: &Scan<V>) {
        let (main, old) = m.verif_parts();
        let r = HashMap::<K, V, S>::VERIF_R;
        assert!(main.len() == sc.nfull_main, "[C05] I1: main table's item count differs from its number of full buckets");
        if let Some((ot, it)) = old {
            assert!(ot.len() == sc.nfull_old, "[C05] I1: old table's item count differs from its number of full buckets");
            assert!(
                it.verif_agrees(ot),
                "[C05] I2: the cached old-table iterator disagrees with the set of elements still in the old table"
            );
            let l = ot.len();
            assert!(
                main.verif_growth_left() >= l + (l + r - 1) / r,
                "[C04] I4: the new table lacks room for the leftovers plus the inserts needed to move them"
            );
        }
        assert!(m.capacity() >= m.len(), "[C04] capacity() < len()");
        assert!(sc.count <= 1, "[C01] I3: a key is stored twice");
        assert!(sc.hash_ok, "[C01] I6: an element is stored under a hash that is not its key's hash for the map's hasher (lookups miss it)");
    }

    /// C03's reclamation clause for calls that must free an old table *they* emptied (`l0` =
    /// leftovers before the call; an old table that was already empty may stay until the next
    /// key-adding call, clear or drain).
    /// [C03] progress clause for a call that added one key: it moved min(R, pending) leftovers,
    /// where pending = the leftovers before the call or, if the call itself started the resize,
    /// the former main table's population. `l0`/`main_len0` are taken before the call, after
    /// `reset_counters()`.
    pub fn post_progress<K, V>(m: &HashMap<K, V, S>, l0: usize, main_len0: usize) {
        let grew = acct::allocs() == 1;
        let pending = if l0 > 0 { l0 } else if grew { main_len0 } else { 0 };
        let step = if pending < R_SPEC { pending } else { R_SPEC };
        assert!(old_len(m) == pending - step, "[C03] a key-adding call did not move min(R, remaining) leftovers");
    }
    pub fn post_freed_if_empty<K, V>(m: &HashMap<K, V, S>, l0: usize) {
        if let Some((ot, _)) = m.verif_parts().1 {
            assert!(ot.len() != 0 || l0 == 0, "[C03] this call emptied the old table but did not release it");
        }
    }
}
#[cfg(not(feature = "counters"))]
pub use slots::*;
