//! Zero-sized elements (C01, C05): `HashSet<()>` / `HashMap<(), ()>`. The model keeps
//! hashbrown's pointer behaviour for zero-sized `T` in `reflect_remove`.
use crate::common::*;
use crate::shapes::*;

type Z = HashMap<(), (), S>;

fn zst_state(sh: Shape) -> Z {
    build::<(), ()>(sh, 1)
}

/// split: the single possible element sits in the old table
pub const ZS_OLD: Shape = split(8, 0, 0, 4, 0b0010, 0, 0);
/// split, two-group old table, element in the second group (cursor in the first)
pub const ZS_OLD2: Shape = split(8, 0, 0, 8, 0b0010_0000, 0, 0);
/// split, two-group old table, element in the first group (the cursor's)
pub const ZS_OLD3: Shape = split(8, 0, 0, 8, 0b0000_0100, 0, 0);
/// unsplit with the element in main
pub const ZS_MAIN: Shape = unsplit(4, 0b0001, 0);

fn zst_remove(sh: Shape) {
    let mut m = zst_state(sh);
    let n = m.len();
    let l0 = old_len(&m);
    let had = m.contains_key(&());
    assert!(had == (n == 1), "[C01] contains_key(()) disagrees with len()");
    let r = m.remove(&());
    assert!(r.is_some() == had, "[C01] remove(()) returned a wrong value");
    assert!(m.len() == 0 && !m.contains_key(&()), "[C01] zero-sized element still present after remove");
    let sq = scan(&m, &());
    post_freed_if_empty(&m, l0);
    post_inv(&m, &sq);
    kani::cover!(had, "cls: removed the zero-sized element");
    kani::cover!(true, "reach: end of harness");
    core::mem::forget(m);
}
#[kani::proof]
#[kani::unwind(34)]
fn zst_remove__old() {
    zst_remove(ZS_OLD)
}
#[kani::proof]
#[kani::unwind(34)]
fn zst_remove__old2() {
    zst_remove(ZS_OLD2)
}
#[kani::proof]
#[kani::unwind(34)]
fn zst_remove__main() {
    zst_remove(ZS_MAIN)
}

fn zst_insert(sh: Shape) {
    let mut m = zst_state(sh);
    let n = m.len();
    let r = m.insert((), ());
    assert!(r.is_some() == (n == 1), "[C01] insert((),()) returned a wrong previous value");
    assert!(m.len() == 1 && m.contains_key(&()), "[C01] zero-sized element missing after insert");
    let sq = scan(&m, &());
    post_inv(&m, &sq);
    kani::cover!(true, "reach: end of harness");
    core::mem::forget(m);
}
#[kani::proof]
#[kani::unwind(34)]
fn zst_insert__old() {
    zst_insert(ZS_OLD)
}
#[kani::proof]
#[kani::unwind(34)]
fn zst_insert__empty() {
    zst_insert(U0)
}

fn zst_retain(sh: Shape, keep: bool) {
    let mut m = zst_state(sh);
    let n = m.len();
    let mut calls = 0;
    m.retain(|_, _| {
        calls += 1;
        keep
    });
    assert!(calls == n, "[C09] retain did not call the predicate once per element");
    assert!(m.len() == if keep { n } else { 0 }, "[C09] retain kept/dropped the wrong elements");
    let sq = scan(&m, &());
    post_inv(&m, &sq);
    kani::cover!(n == 1 && !keep, "cls: retain dropped the zero-sized element");
    kani::cover!(true, "reach: end of harness");
    core::mem::forget(m);
}
// the predicate's answer is concrete per harness: with a symbolic answer CBMC ends with
// VERIFICATION ERROR (solver failure) on this element type
// (the one-group 4-bucket old table ZS_OLD makes CBMC fail on this harness; 8-bucket ones work)
// zst_retain__old3_drop (element in the cursor's own group, dropped): CBMC's solver fails too — not registered
#[kani::proof]
#[kani::unwind(34)]
fn zst_retain__old2_keep() {
    zst_retain(ZS_OLD2, true)
}
#[kani::proof]
#[kani::unwind(34)]
fn zst_retain__old2_drop() {
    zst_retain(ZS_OLD2, false)
}
