//! Engine KM — Kani harnesses over griddle (unchanged, from /repo) compiled against the
//! hashbrown contract model (../hbmodel). See DESIGN.md §3.
//!
//! Conventions
//!  * every property assertion message starts with a tag `[Cxx]` naming the property whose
//!    statement it instantiates; model assertions carry `[ghost]`, `[debug-only]`, `[panic]`;
//!  * harness names are `<family>_<op>__<shape>`; check.py selects by name;
//!  * harnesses end with `mem::forget` of the maps unless dropping is the subject.
#![allow(non_snake_case, clippy::all, dead_code, static_mut_refs, unused_macros, unused_imports)]

pub mod common;
pub mod shapes;

#[cfg(all(kani, not(feature = "counters")))]
mod h_step;
#[cfg(all(kani, not(feature = "counters")))]
mod h_cap;
#[cfg(all(kani, not(feature = "counters")))]
mod h_zst;
#[cfg(all(kani, not(feature = "counters")))]
mod h_panic;
#[cfg(all(kani, not(feature = "counters")))]
mod h_iter;
#[cfg(all(kani, not(feature = "counters")))]
mod h_retain;
#[cfg(all(kani, not(feature = "counters")))]
mod h_entry;
#[cfg(all(kani, not(feature = "counters")))]
mod h_drop;
#[cfg(all(kani, not(feature = "counters")))]
mod h_clone;
#[cfg(all(kani, not(feature = "counters")))]
mod h_set;
#[cfg(all(kani, not(feature = "counters")))]
mod h_eq;
#[cfg(all(kani, feature = "serde", not(feature = "counters")))]
mod h_serde;
#[cfg(all(kani, feature = "counters"))]
mod h_cnt;
