//! The shape grid (DESIGN.md §3.6): concrete layouts; every split shape satisfies I4 for
//! R = 8 and for R = 4 (checked again, concretely, when a state is built).
use crate::common::*;

/// never allocated (`HashMap::with_hasher`)
pub const U0: Shape = unsplit(0, 0, 0);
/// unsplit, room left
pub const U8_3: Shape = unsplit(8, 0b0000_0111, 0);
/// unsplit, room left, one tombstone
pub const U8_3T: Shape = unsplit(8, 0b0000_0111, 0b0001_0000);
/// unsplit, full (4 buckets / 3 elements): the next fresh key starts a resize
pub const U4F: Shape = unsplit(4, 0b0111, 0);
/// unsplit, no growth left because of a tombstone
pub const U4FT: Shape = unsplit(4, 0b0011, 0b0100);
/// unsplit, full (8 buckets / 7 elements): the next fresh key grows to 16 buckets
pub const U8F: Shape = unsplit(8, 0x7f, 0);
/// split, resize just started: 2 leftovers in a one-group old table
pub const S8_4A: Shape = split(8, 0b11, 0, 4, 0b0110, 0, 0);
/// split, a single leftover
pub const S8_4ONE: Shape = split(8, 0b11, 0, 4, 0b0100, 0b0001, 0);
/// split, two-group old table, cursor in group 0, leftovers in both groups
pub const S8_8G0: Shape = split(8, 0b1, 0, 8, 0b0011_0100, 0, 0);
/// split, two-group old table, cursor advanced to group 1 (partly moved)
pub const S8_8G4: Shape = split(8, 0b1, 0, 8, 0b0110_0000, 0b0000_0010, 4);
/// split with an *empty* old table (emptied by retain / replace_entry_with)
pub const S8_E: Shape = split(8, 0b111, 0, 4, 0, 0b0010, 0);
/// the same with a full main table
pub const S4F_E: Shape = split(4, 0b0111, 0, 4, 0, 0, 0);
/// split, 7 leftovers (one carry finishes at R = 8; two at R = 4)
pub const S16_8: Shape = split(16, 0b11, 0, 8, 0x7f, 0, 0);
/// split, main table emptied by removals while two leftovers remain
pub const S8M0_4A: Shape = split(8, 0, 0b0011, 4, 0b0110, 0, 0);
/// split, roomy 16-bucket main table (shrink_to has something to shrink)
pub const S16_4A: Shape = split(16, 0b1, 0, 4, 0b0110, 0, 0);
/// unsplit, roomy 16-bucket main table with 2 elements
pub const U16_2: Shape = unsplit(16, 0b101, 0);
/// split with the tightest headroom I4 allows: growth_left == L + ceil(L/R)
pub const S8T_4A: Shape = split(8, 0b0000_1111, 0, 4, 0b0110, 0, 0);
