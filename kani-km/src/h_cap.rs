//! Capacity management in slots mode (C04, C10, C17): reserve / try_reserve / shrink_to /
//! shrink_to_fit / with_capacity with a symbolic argument from arbitrary INV states.
//! Sizes above the model bound are cut here; counters mode (h_cnt.rs) covers all sizes.
use crate::common::*;
use crate::shapes::*;
use griddle::TryReserveError;

macro_rules! harness {
    ($name:ident, $body:ident, $shape:expr) => {
        #[kani::proof]
        #[kani::unwind(34)]
        fn $name() {
            $body($shape)
        }
    };
}

fn cap_try_reserve(sh: Shape) {
    let mut m = build_kv(sh, 1);
    assume_distinct(&m);
    let q: u8 = kani::any();
    let n: usize = kani::any();
    let pre_q = ref_get(&m, &q);
    let len = m.len();
    let cap0 = m.capacity();
    let l0 = old_len(&m);
    reset_counters();

    let r = m.try_reserve(n);

    let sq = scan(&m, &q);
    assert!(sq.val == pre_q, "[C10] try_reserve changed the contents");
    assert!(m.len() == len, "[C10] try_reserve changed len()");
    match r {
        Ok(()) => {
            // `capacity() >= len() + n`, written without overflow
            assert!(m.capacity() >= len && m.capacity() - len >= n, "[C10] try_reserve returned Ok but capacity() < len() + n");
            // the next n new keys need no reallocation: exactly I4 plus room for n
            let (main, old) = m.verif_parts();
            let l = old.map_or(0, |(ot, _)| ot.len());
            assert!(main.verif_growth_left() >= l && main.verif_growth_left() - l >= n, "[C10] try_reserve returned Ok without room for n more keys besides the leftovers");
        }
        Err(ref e) => {
            assert!(*e == TryReserveError::CapacityOverflow, "[C10] unexpected error kind (the model never fails an allocation)");
        }
    }
    post_inv(&m, &sq);
    kani::cover!(r.is_ok() && acct::allocs() == 1, "cls: try_reserve grew the table");
    kani::cover!(r.is_ok() && acct::allocs() == 0, "cls: try_reserve had enough room");
    kani::cover!(r.is_err(), "cls: try_reserve reported capacity overflow");
    kani::cover!(l0 > 0 && acct::removes() > 0, "cls: try_reserve finished a pending resize first");
    kani::cover!(true, "reach: end of harness");
    core::mem::forget(m);
}
harness!(cap_try_reserve__u8_3, cap_try_reserve, U8_3);
harness!(cap_try_reserve__u4f, cap_try_reserve, U4F);
harness!(cap_try_reserve__s8_4a, cap_try_reserve, S8_4A);
harness!(cap_try_reserve__s8_8g4, cap_try_reserve, S8_8G4);
harness!(cap_try_reserve__s8_e, cap_try_reserve, S8_E);
harness!(cap_try_reserve__s8m0_4a, cap_try_reserve, S8M0_4A);

fn cap_reserve(sh: Shape) {
    let mut m = build_kv(sh, 1);
    assume_distinct(&m);
    let q: u8 = kani::any();
    let n: usize = kani::any();
    let pre_q = ref_get(&m, &q);
    let len = m.len();
    reset_counters();

    m.reserve(n);

    // reserve returned normally: it must have reserved
    let sq = scan(&m, &q);
    assert!(sq.val == pre_q, "[C10] reserve changed the contents");
    assert!(m.len() == len, "[C10] reserve changed len()");
    assert!(m.capacity() >= len && m.capacity() - len >= n, "[C10] reserve returned normally but capacity() < len() + n");
    let (main, old) = m.verif_parts();
    let l = old.map_or(0, |(ot, _)| ot.len());
    assert!(main.verif_growth_left() >= l && main.verif_growth_left() - l >= n, "[C10] reserve returned without room for n more keys besides the leftovers");
    post_inv(&m, &sq);
    kani::cover!(acct::allocs() == 1, "cls: reserve grew the table");
    kani::cover!(acct::allocs() == 0, "cls: reserve had enough room");
    kani::cover!(true, "reach: end of harness");
    core::mem::forget(m);
}
harness!(cap_reserve__u8_3, cap_reserve, U8_3);
harness!(cap_reserve__u4f, cap_reserve, U4F);
harness!(cap_reserve__s8_4a, cap_reserve, S8_4A);
harness!(cap_reserve__s8_8g4, cap_reserve, S8_8G4);
harness!(cap_reserve__s8_e, cap_reserve, S8_E);
harness!(cap_reserve__s8m0_4a, cap_reserve, S8M0_4A);

fn cap_shrink(sh: Shape, fit: bool) {
    let mut m = build_kv(sh, 1);
    assume_distinct(&m);
    let q: u8 = kani::any();
    let mc: usize = if fit { 0 } else { kani::any() };
    let pre_q = ref_get(&m, &q);
    let len = m.len();
    let cap0 = m.capacity();
    let b0 = m.verif_parts().0.verif_nslots();
    let l0 = old_len(&m);
    reset_counters();
    if fit {
        m.shrink_to_fit();
    } else {
        m.shrink_to(mc);
    }
    let sq = scan(&m, &q);
    assert!(sq.val == pre_q, "[C10] shrink_to lost or altered an element");
    assert!(m.len() == len && old_len(&m) == l0, "[C10] shrink_to changed the number of elements");
    assert!(m.verif_parts().0.verif_nslots() <= b0, "[C10] shrink_to enlarged the table");
    let lower = if mc < cap0 { mc } else { cap0 };
    assert!(m.capacity() >= len && m.capacity() >= lower, "[C10] shrink_to left capacity() < max(len(), min(m, previous capacity))");
    assert!(acct::allocs() <= 1, "[C03] shrink_to allocated more than one table");
    post_inv(&m, &sq);
    assert!(m.get(&q).copied() == pre_q, "[C10] a lookup fails after shrink_to");
    kani::cover!(m.verif_parts().0.verif_nslots() < b0, "cls: shrink_to shrank the table");
    kani::cover!(true, "reach: end of harness");
    core::mem::forget(m);
}
fn cap_shrink_to(sh: Shape) {
    cap_shrink(sh, false)
}
fn cap_shrink_to_fit(sh: Shape) {
    cap_shrink(sh, true)
}
harness!(cap_shrink_to__u16_2, cap_shrink_to, U16_2);
harness!(cap_shrink_to__s16_4a, cap_shrink_to, S16_4A);
harness!(cap_shrink_to__s8_e, cap_shrink_to, S8_E);
harness!(cap_shrink_to__s8m0_4a, cap_shrink_to, S8M0_4A);
harness!(cap_shrink_to_fit__s16_4a, cap_shrink_to_fit, S16_4A);
harness!(cap_shrink_to_fit__s8_e, cap_shrink_to_fit, S8_E);
harness!(cap_shrink_to_fit__s8m0_4a, cap_shrink_to_fit, S8M0_4A);
harness!(cap_shrink_to_fit__u8_3t, cap_shrink_to_fit, U8_3T);

#[kani::proof]
#[kani::unwind(34)]
fn cap_with_capacity() {
    let n: usize = kani::any();
    let q: u8 = kani::any();
    reset_counters();
    let mut m = M::with_capacity_and_hasher(n, S { id: 1 });
    assert!(m.capacity() >= n && m.len() == 0, "[C10] with_capacity(n) gives capacity() < n");
    let k: u8 = kani::any();
    let v: u8 = kani::any();
    if n > 0 {
        reset_counters();
        assert!(m.insert(k, v).is_none(), "[C01] insert into a fresh map found a key");
        assert!(acct::allocs() == 0, "[C10] inserting into a map built with_capacity(n > 0) reallocated");
    }
    let sq = scan(&m, &q);
    post_inv(&m, &sq);
    kani::cover!(n > 0 && n <= 14, "cls: capacity within the model bound");
    kani::cover!(true, "reach: end of harness");
    core::mem::forget(m);
}
