//! Capacity management in slots mode (C04, C10, C17): reserve / try_reserve / shrink_to /
//! shrink_to_fit / with_capacity with a symbolic argument from arbitrary INV states.
//! Sizes above the model bound are cut here; counters mode (h_cnt.rs) covers all sizes.
use crate::common::*;
use crate::shapes::*;
use griddle::TryReserveError;

macro_rules! harness {
    ($name:ident, $body:ident, $shape:expr) => {
        #[kani::proof]
        #[kani::unwind(34)]
        fn $name() {
            $body($shape)
        }
    };
}

fn cap_try_reserve(sh: Shape) {
    let mut m = build_kv(sh, 1);
    assume_distinct(&m);
    let q: u8 = kani::any();
    let n: usize = kani::any();
    let pre_q = ref_get(&m, &q);
    let len = m.len();
    let cap0 = m.capacity();
    let l0 = old_len(&m);
    reset_counters();

    let r = m.try_reserve(n);

    let sq = scan(&m, &q);
    assert!(sq.val == pre_q, "[C10] try_reserve changed the contents");
    assert!(m.len() == len, "[C10] try_reserve changed len()");
    match r {
        Ok(()) => {
            // `capacity() >= len() + n`, written without overflow
            assert!(m.capacity() >= len && m.capacity() - len >= n, "[C10] try_reserve returned Ok but capacity() < len() + n");
            // the next n new keys need no reallocation: exactly I4 plus room for n
            let (main, old) = m.verif_parts();
            let l = old.map_or(0, |(ot, _)| ot.len());
            assert!(main.verif_growth_left() >= l && main.verif_growth_left() - l >= n, "[C10] try_reserve returned Ok without room for n more keys besides the leftovers");
        }
        Err(ref e) => {
            assert!(*e == TryReserveError::CapacityOverflow, "[C10] unexpected error kind (the model never fails an allocation)");
            assert!(m.capacity() == cap0 || acct::removes() > 0, "[C10] try_reserve failed but changed the capacity");
        }
    }
    post_inv(&m, &sq);
    kani::cover!(r.is_ok() && acct::allocs() == 1, "cls: try_reserve grew the table");
    kani::cover!(r.is_ok() && acct::allocs() == 0, "cls: try_reserve had enough room");
    kani::cover!(r.is_err(), "cls: try_reserve reported capacity overflow");
    kani::cover!(l0 > 0 && acct::removes() > 0, "cls: try_reserve finished a pending resize first");
    kani::cover!(true, "reach: end of harness");
    core::mem::forget(m);
}
harness!(cap_try_reserve__u8_3, cap_try_reserve, U8_3);
harness!(cap_try_reserve__u4f, cap_try_reserve, U4F);
harness!(cap_try_reserve__s8_4a, cap_try_reserve, S8_4A);
harness!(cap_try_reserve__s8_8g4, cap_try_reserve, S8_8G4);
harness!(cap_try_reserve__s8_e, cap_try_reserve, S8_E);

fn cap_reserve(sh: Shape) {
    let mut m = build_kv(sh, 1);
    assume_distinct(&m);
    let q: u8 = kani::any();
    let n: usize = kani::any();
    let pre_q = ref_get(&m, &q);
    let len = m.len();
    reset_counters();

    m.reserve(n);

    // reserve returned normally: it must have reserved
    let sq = scan(&m, &q);
    assert!(sq.val == pre_q, "[C10] reserve changed the contents");
    assert!(m.len() == len, "[C10] reserve changed len()");
    assert!(m.capacity() >= len && m.capacity() - len >= n, "[C10] reserve returned normally but capacity() < len() + n");
    let (main, old) = m.verif_parts();
    let l = old.map_or(0, |(ot, _)| ot.len());
    assert!(main.verif_growth_left() >= l && main.verif_growth_left() - l >= n, "[C10] reserve returned without room for n more keys besides the leftovers");
    post_inv(&m, &sq);
    kani::cover!(acct::allocs() == 1, "cls: reserve grew the table");
    kani::cover!(acct::allocs() == 0, "cls: reserve had enough room");
    kani::cover!(true, "reach: end of harness");
    core::mem::forget(m);
}
harness!(cap_reserve__u8_3, cap_reserve, U8_3);
harness!(cap_reserve__u4f, cap_reserve, U4F);
harness!(cap_reserve__s8_4a, cap_reserve, S8_4A);
harness!(cap_reserve__s8_8g4, cap_reserve, S8_8G4);
harness!(cap_reserve__s8_e, cap_reserve, S8_E);
