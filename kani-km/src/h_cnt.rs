//! Counters mode (DESIGN.md §3.3): size/accounting properties with every size an
//! unconstrained 64-bit solver variable (C02, C03, C04, C10, C17). The main table's bucket
//! count is any power of two in 4..=2^62, its items/tombstones anything its load limit
//! admits; leftovers L <= LMAX where a griddle loop walks them (carry_all).
use crate::common::*;
use griddle::TryReserveError;

const R: usize = R_SPEC;
/// bound on the leftover count in states handed to calls that walk all leftovers
const LMAX: usize = 2 * R_SPEC + 2;

fn pow2() -> usize {
    let b: usize = kani::any();
    kani::assume(b >= 4 && b <= (1usize << 62) && b.is_power_of_two());
    b
}

/// arbitrary INV state: `split` = an old table is installed (possibly empty)
fn state(split: bool) -> M {
    state_l(split, LMAX)
}
fn state_l(split: bool, lmax: usize) -> M {
    state_ll(split, 0, lmax)
}
fn state_ll(split: bool, lmin: usize, lmax: usize) -> M {
    let main: HB<(u8, u8)> = HB::verif_counters(pow2(), kani::any(), kani::any(), kani::any());
    let old = if split {
        let l: usize = kani::any();
        kani::assume(l >= lmin && l <= lmax);
        let ot: HB<(u8, u8)> = HB::verif_counters(pow2(), l, kani::any(), kani::any());
        // I4: headroom
        kani::assume(main.verif_growth_left() >= l + (l + R - 1) / R);
        let it = unsafe { ot.verif_iter() };
        Some((ot, it))
    } else {
        None
    };
    M::verif_from_parts(S { id: 1 }, main, old)
}
fn state_unallocated() -> M {
    M::verif_from_parts(S { id: 1 }, HB::new(), None)
}

fn old_len(m: &M) -> usize {
    m.verif_parts().1.map_or(0, |(t, _)| t.len())
}
fn is_split(m: &M) -> bool {
    m.verif_parts().1.is_some()
}

fn post_inv(m: &M) {
    let (main, old) = m.verif_parts();
    assert!(M::VERIF_R == R, "[C02] the crate's move quota differs from the one the property names");
    if let Some((ot, it)) = old {
        assert!(it.verif_agrees(ot), "[C05] I2: the cached old-table iterator's count differs from the old table's length");
        let l = ot.len();
        assert!(
            l <= main.verif_growth_left() && main.verif_growth_left() - l >= (l + R - 1) / R,
            "[C04] I4: the new table lacks room for the leftovers plus the inserts needed to move them"
        );
    }
    assert!(m.capacity() >= m.len(), "[C04] capacity() < len()");
    assert!(acct::live() <= 2, "[C03] more than two backing tables are alive");
}

fn cnt_insert(mut m: M) {
    let k: u8 = kani::any();
    let v: u8 = kani::any();
    let n = m.len();
    let cap = m.capacity();
    let l0 = old_len(&m);
    let was_split = is_split(&m);
    let main_len0 = m.verif_parts().0.len();
    reset_counters();

    let r = m.insert(k, v);

    let fresh = r.is_none();
    assert!(m.len() == n + if fresh { 1 } else { 0 }, "[C01] len() wrong after insert");
    let moved = acct::removes();
    assert!(hashes() <= 10, "[C02] more than R+2 = 10 hash computations in one insert");
    assert!(moved <= 8, "[C02] more than R = 8 elements moved in one insert");
    assert!(acct::allocs() <= 1, "[C02] more than one table allocation in one insert");
    assert!(acct::rehash() == 0, "[C02] the dependency rehashed elements (all-at-once resize) during insert");
    let l1 = old_len(&m);
    if fresh {
        // what there is to move: the leftovers, or — if this call started a resize (possibly
        // after releasing an already empty old table) — the previous main table's elements
        let pending = if l0 > 0 { l0 } else if acct::allocs() == 1 { main_len0 } else { 0 };
        let step = if pending < R { pending } else { R };
        assert!(l1 == pending - step, "[C03] a key-adding call did not move min(R, remaining) leftovers");
        if l1 == 0 {
            assert!(!is_split(&m), "[C03] the old table is empty but was not released by this call");
            assert!(acct::live() <= 1, "[C03] old table not deallocated once emptied");
        }
        assert!(m.capacity() >= cap, "[C04] capacity() decreased across a key-adding call");
        if cap > n {
            assert!(acct::allocs() == 0, "[C04] inserting a fresh key with capacity() > len() allocated");
        }
    } else {
        assert!(acct::allocs() == 0, "[C02] an overwriting insert allocated");
        assert!(l1 <= l0 && l0 - l1 <= 8, "[C02] an overwriting insert moved more than R elements");
    }
    post_inv(&m);
    kani::cover!(fresh && acct::allocs() == 1, "cls: insert grew the table");
    kani::cover!(fresh && was_split && l1 > 0, "cls: resize still pending after the call");
    kani::cover!(fresh && was_split && l0 > 0 && l1 == 0, "cls: this call finished the resize");
    kani::cover!(!fresh && moved > 0, "cls: overwrite of an old-table element carried");
    kani::cover!(m.len() > (1usize << 40), "cls: more than 2^40 elements");
    kani::cover!(true, "reach: end of harness");
    core::mem::forget(m);
}
#[kani::proof]
#[kani::unwind(12)]
fn cnt_insert__unsplit() {
    cnt_insert(state(false))
}
/// a resize is pending (L >= 1): by I4 the call cannot have to grow
#[kani::proof]
#[kani::unwind(12)]
fn cnt_insert__split() {
    cnt_insert(state_ll(true, 1, LMAX))
}
/// the old table is installed but empty (emptied by retain / replace_entry_with): the call
/// may find the main table full and start the next resize
#[kani::proof]
#[kani::unwind(12)]
fn cnt_insert__split_empty() {
    cnt_insert(state_ll(true, 0, 0))
}
#[kani::proof]
#[kani::unwind(12)]
fn cnt_insert__unallocated() {
    cnt_insert(state_unallocated())
}

fn cnt_remove(mut m: M) {
    let k: u8 = kani::any();
    let n = m.len();
    let l0 = old_len(&m);
    let cap = m.capacity();
    reset_counters();
    let r = m.remove(&k);
    assert!(m.len() == n - if r.is_some() { 1 } else { 0 }, "[C01] len() wrong after remove");
    assert!(hashes() == 1 && acct::allocs() == 0 && acct::rehash() == 0 && acct::inserts() == 0, "[C02] remove did more than hash the queried key and take one element out");
    let l1 = old_len(&m);
    assert!(l1 == l0 || l1 + 1 == l0, "[C03] remove changed the leftovers unexpectedly");
    if is_split(&m) {
        assert!(l1 != 0 || l0 == 0, "[C03] remove emptied the old table but did not release it");
    }
    post_inv(&m);
    kani::cover!(l1 + 1 == l0 && !is_split(&m), "cls: removal emptied and freed the old table");
    kani::cover!(true, "reach: end of harness");
    core::mem::forget(m);
}
#[kani::proof]
#[kani::unwind(12)]
fn cnt_remove__split() {
    cnt_remove(state(true))
}

fn cnt_try_reserve(mut m: M) {
    let n: usize = kani::any();
    let len = m.len();
    let cap0 = m.capacity();
    reset_counters();
    let r = m.try_reserve(n);
    assert!(m.len() == len, "[C10] try_reserve changed len()");
    match r {
        Ok(()) => {
            assert!(m.capacity() >= len && m.capacity() - len >= n, "[C10] try_reserve returned Ok but capacity() < len() + n");
            let (main, old) = m.verif_parts();
            let l = old.map_or(0, |(ot, _)| ot.len());
            assert!(main.verif_growth_left() >= l && main.verif_growth_left() - l >= n, "[C10] try_reserve returned Ok without room for n more keys besides the leftovers");
        }
        Err(ref e) => {
            assert!(*e == TryReserveError::CapacityOverflow, "[C10] unexpected error kind (the model never fails an allocation)");
        }
    }
    assert!(acct::allocs() <= 1, "[C03] reserve allocated more than one table");
    post_inv(&m);
    kani::cover!(r.is_ok() && acct::allocs() == 1, "cls: try_reserve grew the table");
    kani::cover!(r.is_ok() && acct::allocs() == 0, "cls: try_reserve had enough room");
    kani::cover!(r.is_err(), "cls: try_reserve reported capacity overflow");
    kani::cover!(r.is_ok() && acct::removes() > 0, "cls: try_reserve finished a pending resize first");
    kani::cover!(n > (1usize << 63), "cls: request above isize::MAX");
    kani::cover!(true, "reach: end of harness");
    let _ = cap0;
    core::mem::forget(m);
}
#[kani::proof]
#[kani::unwind(22)]
fn cnt_try_reserve__unsplit() {
    cnt_try_reserve(state(false))
}
#[kani::proof]
#[kani::unwind(12)]
fn cnt_try_reserve__split() {
    cnt_try_reserve(state_l(true, R_SPEC + 1))
}
#[kani::proof]
#[kani::unwind(22)]
fn cnt_try_reserve__unallocated() {
    cnt_try_reserve(state_unallocated())
}

fn cnt_reserve(mut m: M) {
    let n: usize = kani::any();
    let len = m.len();
    reset_counters();
    m.reserve(n);
    assert!(m.len() == len, "[C10] reserve changed len()");
    assert!(m.capacity() >= len && m.capacity() - len >= n, "[C10] reserve returned normally but capacity() < len() + n");
    let (main, old) = m.verif_parts();
    let l = old.map_or(0, |(ot, _)| ot.len());
    assert!(main.verif_growth_left() >= l && main.verif_growth_left() - l >= n, "[C10] reserve returned without room for n more keys besides the leftovers");
    assert!(acct::allocs() <= 1, "[C03] reserve allocated more than one table");
    post_inv(&m);
    kani::cover!(acct::allocs() == 1, "cls: reserve grew the table");
    kani::cover!(acct::allocs() == 0, "cls: reserve had enough room");
    kani::cover!(true, "reach: end of harness");
    core::mem::forget(m);
}
#[kani::proof]
#[kani::unwind(22)]
fn cnt_reserve__unsplit() {
    cnt_reserve(state(false))
}
#[kani::proof]
#[kani::unwind(12)]
fn cnt_reserve__split() {
    cnt_reserve(state_l(true, R_SPEC + 1))
}

fn cnt_shrink_to(mut m: M, fit: bool) {
    let mc: usize = if fit { 0 } else { kani::any() };
    let len = m.len();
    let cap0 = m.capacity();
    let b0 = m.verif_parts().0.verif_nslots();
    let l0 = old_len(&m);
    reset_counters();
    if fit {
        m.shrink_to_fit();
    } else {
        m.shrink_to(mc);
    }
    assert!(m.len() == len && old_len(&m) == l0, "[C10] shrink_to changed the number of elements");
    assert!(m.verif_parts().0.verif_nslots() <= b0, "[C10] shrink_to enlarged the table");
    let lower = if mc < cap0 { mc } else { cap0 };
    assert!(m.capacity() >= len && m.capacity() >= lower, "[C10] shrink_to left capacity() < max(len(), min(m, previous capacity))");
    assert!(acct::allocs() <= 1, "[C03] shrink_to allocated more than one table");
    post_inv(&m);
    kani::cover!(m.verif_parts().0.verif_nslots() < b0, "cls: shrink_to shrank the table");
    kani::cover!(m.verif_parts().0.verif_nslots() < b0 && l0 > 0, "cls: shrink_to shrank the table during a resize");
    kani::cover!(true, "reach: end of harness");
    core::mem::forget(m);
}
#[kani::proof]
#[kani::unwind(12)]
fn cnt_shrink_to__unsplit() {
    cnt_shrink_to(state(false), false)
}
#[kani::proof]
#[kani::unwind(12)]
fn cnt_shrink_to__split() {
    cnt_shrink_to(state(true), false)
}
#[kani::proof]
#[kani::unwind(12)]
fn cnt_shrink_to_fit__split() {
    cnt_shrink_to(state(true), true)
}

#[kani::proof]
#[kani::unwind(12)]
fn cnt_with_capacity() {
    let n: usize = kani::any();
    reset_counters();
    let mut m = M::with_capacity_and_hasher(n, S { id: 1 });
    // reached only if construction did not panic with the documented capacity overflow
    assert!(m.capacity() >= n, "[C10] with_capacity(n) gives capacity() < n");
    assert!(m.len() == 0 && !is_split(&m), "[C10] with_capacity did not produce an empty unsplit map");
    assert!(acct::allocs() <= 1, "[C10] with_capacity allocated more than one table");
    post_inv(&m);
    // the first insertion into a map with n > 0 does not allocate
    if n > 0 {
        reset_counters();
        let _ = m.insert(kani::any(), kani::any());
        assert!(acct::allocs() == 0, "[C10] inserting into a map built with_capacity(n > 0) reallocated");
    }
    kani::cover!(n > 1000000, "cls: large capacity");
    kani::cover!(true, "reach: end of harness");
    core::mem::forget(m);
}

fn cnt_clear(mut m: M) {
    m.clear();
    assert!(m.len() == 0 && !is_split(&m) && acct::live() <= 1, "[C03] clear did not release the old table");
    post_inv(&m);
    kani::cover!(true, "reach: end of harness");
    core::mem::forget(m);
}
#[kani::proof]
#[kani::unwind(12)]
fn cnt_clear__split() {
    cnt_clear(state(true))
}

/// C03's completion bound executed rather than argued: from any split state with L <= 2R + 2
/// leftovers, ceil(L / R) (<= 3) consecutive key-adding inserts finish the resize and free the old
/// table, without any further allocation (C04) — for main tables of any size.
#[kani::proof]
#[kani::unwind(12)]
fn cnt_insert3__split_completes() {
    let mut m = state_ll(true, 1, LMAX);
    let l0 = old_len(&m);
    let need = (l0 + R - 1) / R;
    reset_counters();
    let mut done = 0usize;
    let mut i = 0;
    while i < 3 {
        if done < need {
            let r = m.insert(kani::any(), kani::any());
            // only key-adding calls count towards the bound
            kani::assume(r.is_none());
            done += 1;
        }
        i += 1;
    }
    assert!(!is_split(&m), "[C03] the resize is not complete after ceil(L/R) key-adding insertions");
    assert!(acct::live() <= 1, "[C03] the old table is still allocated after the resize completed");
    assert!(acct::allocs() == 0, "[C04] finishing a pending resize needed another table allocation");
    post_inv(&m);
    kani::cover!(need == 3, "cls: three insertions needed");
    kani::cover!(need == 1, "cls: one insertion needed");
    kani::cover!(true, "reach: end of harness");
    core::mem::forget(m);
}

/// C10's "the next n new keys are inserted without reallocation", executed for n <= 3 after
/// reserve(n) issued in any state (any table sizes; a pending resize with L <= R + 1).
fn cnt_reserve_then_insert(mut m: M) {
    let n: usize = kani::any();
    kani::assume(n <= 3);
    m.reserve(n);
    let len = m.len();
    reset_counters();
    let mut i = 0;
    while i < 3 {
        if i < n {
            let r = m.insert(kani::any(), kani::any());
            kani::assume(r.is_none());
        }
        i += 1;
    }
    assert!(acct::allocs() == 0 && acct::rehash() == 0, "[C10] one of the n insertions after reserve(n) reallocated");
    assert!(m.len() == len + n, "[C01] len() wrong after n insertions");
    post_inv(&m);
    kani::cover!(n == 3, "cls: three insertions");
    kani::cover!(true, "reach: end of harness");
    core::mem::forget(m);
}
#[kani::proof]
#[kani::unwind(12)]
fn cnt_reserve_then_insert__split() {
    cnt_reserve_then_insert(state_l(true, R_SPEC + 1))
}
#[kani::proof]
#[kani::unwind(12)]
fn cnt_reserve_then_insert__unsplit() {
    cnt_reserve_then_insert(state(false))
}

/// VacantEntry::insert (through the guarded hook) in counters mode: the same clauses as a fresh
/// HashMap::insert, for tables of any size.
fn cnt_vacant_insert(mut m: M) {
    let n = m.len();
    let cap = m.capacity();
    let l0 = old_len(&m);
    let main_len0 = m.verif_parts().0.len();
    reset_counters();
    {
        let e = m.verif_vacant_entry(kani::any());
        let _ = e.insert(kani::any());
    }
    assert!(m.len() == n + 1, "[C01] len() wrong after VacantEntry::insert");
    assert!(hashes() <= 10 && acct::removes() <= 8 && acct::allocs() <= 1 && acct::rehash() == 0, "[C02] VacantEntry::insert exceeded the per-call work bound");
    let pending = if l0 > 0 { l0 } else if acct::allocs() == 1 { main_len0 } else { 0 };
    let step = if pending < R { pending } else { R };
    assert!(old_len(&m) == pending - step, "[C03] a key-adding call did not move min(R, remaining) leftovers");
    if old_len(&m) == 0 {
        assert!(!is_split(&m) && acct::live() <= 1, "[C03] the old table is empty but was not released by this call");
    }
    assert!(m.capacity() >= cap, "[C04] capacity() decreased across a key-adding call");
    if cap > n {
        assert!(acct::allocs() == 0, "[C04] inserting a fresh key with capacity() > len() allocated");
    }
    post_inv(&m);
    kani::cover!(acct::allocs() == 1, "cls: insert grew the table");
    kani::cover!(true, "reach: end of harness");
    core::mem::forget(m);
}
#[kani::proof]
#[kani::unwind(12)]
fn cnt_vacant_insert__split() {
    cnt_vacant_insert(state_ll(true, 1, LMAX))
}
#[kani::proof]
#[kani::unwind(12)]
fn cnt_vacant_insert__unsplit() {
    cnt_vacant_insert(state(false))
}
