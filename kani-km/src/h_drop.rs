//! C06: every stored key and value is dropped exactly once or handed back exactly once.
//! Keys are `Kt(u8)`, values `Vt(u8)`; a token's Drop bumps a counter iff its id equals the
//! witness id (a solver variable), so "created == dropped + handed back" for the witness id,
//! for all ids, is the exactly-once ledger. Tables: model live-allocation count is 0 at the end.
use crate::common::*;
use crate::shapes::*;
use core::hash::{Hash, Hasher};

static mut WK: u8 = 0;
static mut WV: u8 = 0;
static mut DROPS_K: usize = 0;
static mut DROPS_V: usize = 0;
static mut CLONES_K: usize = 0;
static mut CLONES_V: usize = 0;

#[derive(PartialEq, Eq, Debug)]
pub struct Kt(pub u8);
#[derive(PartialEq, Eq, Debug)]
pub struct Vt(pub u8);
impl Hash for Kt {
    fn hash<H: Hasher>(&self, s: &mut H) {
        s.write_u8(self.0)
    }
}
impl Drop for Kt {
    fn drop(&mut self) {
        unsafe {
            if self.0 == WK {
                DROPS_K += 1;
            }
        }
    }
}
impl Drop for Vt {
    fn drop(&mut self) {
        unsafe {
            if self.0 == WV {
                DROPS_V += 1;
            }
        }
    }
}
impl Clone for Kt {
    fn clone(&self) -> Self {
        unsafe {
            if self.0 == WK {
                CLONES_K += 1;
            }
        }
        Kt(self.0)
    }
}
impl Clone for Vt {
    fn clone(&self) -> Self {
        unsafe {
            if self.0 == WV {
                CLONES_V += 1;
            }
        }
        Vt(self.0)
    }
}
impl kani::Arbitrary for Kt {
    fn any() -> Self {
        Kt(kani::any())
    }
}
impl kani::Arbitrary for Vt {
    fn any() -> Self {
        Vt(kani::any())
    }
}

type D = HashMap<Kt, Vt, S>;

macro_rules! harness {
    ($name:ident, $body:ident, $shape:expr) => {
        #[kani::proof]
        #[kani::unwind(34)]
        fn $name() {
            $body($shape)
        }
    };
    ($name:ident, $body:ident, $shape:expr, $j:expr) => {
        #[kani::proof]
        #[kani::unwind(34)]
        fn $name() {
            $body($shape, $j)
        }
    };
}

/// (stored keys with the witness id, stored values with the witness id)
fn census(m: &D) -> (usize, usize) {
    let (main, old) = m.verif_parts();
    let (wk, wv) = unsafe { (WK, WV) };
    let mut nk = 0;
    let mut nv = 0;
    let mut i = 0;
    while i < main.verif_nslots() {
        if let Some(kv) = main.verif_slot(i) {
            if kv.0 .0 == wk {
                nk += 1;
            }
            if kv.1 .0 == wv {
                nv += 1;
            }
        }
        i += 1;
    }
    if let Some((ot, _)) = old {
        let mut i = 0;
        while i < ot.verif_nslots() {
            if let Some(kv) = ot.verif_slot(i) {
                if kv.0 .0 == wk {
                    nk += 1;
                }
                if kv.1 .0 == wv {
                    nv += 1;
                }
            }
            i += 1;
        }
    }
    (nk, nv)
}

struct Ledger {
    created_k: usize,
    created_v: usize,
    back_k: usize,
    back_v: usize,
}
fn start(sh: Shape) -> (D, Ledger) {
    let m: D = build::<Kt, Vt>(sh, 1);
    assume_distinct(&m);
    unsafe {
        WK = kani::any();
        WV = kani::any();
        DROPS_K = 0;
        DROPS_V = 0;
        CLONES_K = 0;
        CLONES_V = 0;
    }
    let (nk, nv) = census(&m);
    (m, Ledger { created_k: nk, created_v: nv, back_k: 0, back_v: 0 })
}
impl Ledger {
    fn make_k(&mut self, id: u8) -> Kt {
        if id == unsafe { WK } {
            self.created_k += 1;
        }
        Kt(id)
    }
    fn make_v(&mut self, id: u8) -> Vt {
        if id == unsafe { WV } {
            self.created_v += 1;
        }
        Vt(id)
    }
    /// a token handed back to the caller: counted, then forgotten (the caller owns it now)
    fn back_k(&mut self, k: Kt) {
        if k.0 == unsafe { WK } {
            self.back_k += 1;
        }
        core::mem::forget(k);
    }
    fn back_v(&mut self, v: Vt) {
        if v.0 == unsafe { WV } {
            self.back_v += 1;
        }
        core::mem::forget(v);
    }
    /// after the map and every iterator are gone
    fn settle(&self) {
        unsafe {
            assert!(self.created_k + CLONES_K == DROPS_K + self.back_k, "[C06] a key was dropped twice, leaked, or both dropped and handed back");
            assert!(self.created_v + CLONES_V == DROPS_V + self.back_v, "[C06] a value was dropped twice, leaked, or both dropped and handed back");
        }
        assert!(acct::live() == 0, "[C06] a table allocation is still alive after the map and its iterators are gone");
    }
}

fn dr_insert(sh: Shape) {
    let (mut m, mut lg) = start(sh);
    let k = lg.make_k(kani::any());
    let v = lg.make_v(kani::any());
    if let Some(old) = m.insert(k, v) {
        lg.back_v(old);
    }
    drop(m);
    lg.settle();
    kani::cover!(unsafe { DROPS_K } >= 2, "cls: the duplicate key argument and the stored key were both dropped");
    kani::cover!(true, "reach: end of harness");
}
harness!(dr_insert__u4f, dr_insert, U4F);
harness!(dr_insert__s8_4a, dr_insert, S8_4A);
harness!(dr_insert__s8_8g4, dr_insert, S8_8G4);
harness!(dr_insert__s8m0_4a, dr_insert, S8M0_4A);

fn dr_remove(sh: Shape) {
    let (mut m, mut lg) = start(sh);
    let k: u8 = kani::any();
    let probe = Kt(k);
    let by_entry: bool = kani::any();
    if by_entry {
        if let Some((kk, vv)) = m.remove_entry(&probe) {
            lg.back_k(kk);
            lg.back_v(vv);
        }
    } else if let Some(vv) = m.remove(&probe) {
        lg.back_v(vv);
    }
    core::mem::forget(probe);
    drop(m);
    lg.settle();
    kani::cover!(true, "reach: end of harness");
}
harness!(dr_remove__s8_4a, dr_remove, S8_4A);
harness!(dr_remove__s8_4one, dr_remove, S8_4ONE);
harness!(dr_remove__s8_8g4, dr_remove, S8_8G4);
harness!(dr_remove__s8m0_4a, dr_remove, S8M0_4A);

fn dr_clear_drop(sh: Shape) {
    let (mut m, lg) = start(sh);
    let clear: bool = kani::any();
    if clear {
        m.clear();
        assert!(census(&m) == (0, 0), "[C06] clear left elements behind");
    }
    drop(m);
    lg.settle();
    kani::cover!(clear, "cls: clear");
    kani::cover!(!clear, "cls: plain drop of a map");
    kani::cover!(true, "reach: end of harness");
}
harness!(dr_clear_drop__s8_4a, dr_clear_drop, S8_4A);
harness!(dr_clear_drop__s8_8g4, dr_clear_drop, S8_8G4);
harness!(dr_clear_drop__s8_e, dr_clear_drop, S8_E);
harness!(dr_clear_drop__u8_3t, dr_clear_drop, U8_3T);
harness!(dr_clear_drop__s8m0_4a, dr_clear_drop, S8M0_4A);

fn dr_retain(sh: Shape) {
    let (mut m, lg) = start(sh);
    let mask: u16 = kani::any();
    let mut calls = 0usize;
    m.retain(|_, _| {
        let keep = (mask >> (calls & 15)) & 1 == 1;
        calls += 1;
        keep
    });
    drop(m);
    lg.settle();
    kani::cover!(true, "reach: end of harness");
}
harness!(dr_retain__s8_4a, dr_retain, S8_4A);
harness!(dr_retain__s8_8g0, dr_retain, S8_8G0);

const END: usize = usize::MAX;
/// drain / into_iter consumed for `j` steps, then dropped (or forgotten)
fn dr_drain(sh: Shape, p: (usize, bool)) {
    let (j, forget) = p;
    let (mut m, mut lg) = start(sh);
    let n = m.len();
    let j = if j == END { n + 1 } else { j };
    {
        let mut it = m.drain();
        let mut s = 0;
        while s < j {
            if let Some((k, v)) = it.next() {
                lg.back_k(k);
                lg.back_v(v);
            }
            s += 1;
        }
        if forget {
            core::mem::forget(it);
        }
    }
    drop(m);
    if !forget {
        lg.settle();
    } else {
        // mem::forget of an iterator is the one documented exception: nothing may be dropped twice
        unsafe {
            assert!(DROPS_K + lg.back_k <= lg.created_k && DROPS_V + lg.back_v <= lg.created_v, "[C06] an element was dropped twice (or dropped after being handed out) around a forgotten drain");
        }
    }
    kani::cover!(true, "reach: end of harness");
}
harness!(dr_drain__s8_4a_j0, dr_drain, S8_4A, (0, false));
harness!(dr_drain__s8_4a_j1, dr_drain, S8_4A, (1, false));
harness!(dr_drain__s8_4a_j3, dr_drain, S8_4A, (3, false));
harness!(dr_drain__s8_4a_end, dr_drain, S8_4A, (END, false));
harness!(dr_drain__s8_8g4_j2, dr_drain, S8_8G4, (2, false));
harness!(dr_drain__s8_4a_j2f, dr_drain, S8_4A, (2, true));

fn dr_into_iter(sh: Shape, j: usize) {
    let (m, mut lg) = start(sh);
    let n = m.len();
    let j = if j == END { n + 1 } else { j };
    {
        let mut it = m.into_iter();
        let mut s = 0;
        while s < j {
            if let Some((k, v)) = it.next() {
                lg.back_k(k);
                lg.back_v(v);
            }
            s += 1;
        }
    }
    lg.settle();
    kani::cover!(true, "reach: end of harness");
}
harness!(dr_into_iter__s8_4a_j0, dr_into_iter, S8_4A, 0);
harness!(dr_into_iter__s8_4a_j1, dr_into_iter, S8_4A, 1);
harness!(dr_into_iter__s8_4a_j3, dr_into_iter, S8_4A, 3);
harness!(dr_into_iter__s8_8g4_end, dr_into_iter, S8_8G4, END);
harness!(dr_into_iter__s8_8g4_j2, dr_into_iter, S8_8G4, 2);

fn dr_drain_filter(sh: Shape, p: (u16, usize)) {
    let (pm, j) = p;
    let (mut m, mut lg) = start(sh);
    let n = m.len();
    let j = if j == END { n + 1 } else { j };
    let mut calls = 0usize;
    {
        let mut df = m.drain_filter(|_, _| {
            let hit = (pm >> (calls & 15)) & 1 == 1;
            calls += 1;
            hit
        });
        let mut s = 0;
        while s < j {
            if let Some((k, v)) = df.next() {
                lg.back_k(k);
                lg.back_v(v);
            }
            s += 1;
        }
    }
    drop(m);
    lg.settle();
    kani::cover!(true, "reach: end of harness");
}
harness!(dr_drain_filter__s8_4a_m0110_end, dr_drain_filter, S8_4A, (0b0110, END));
harness!(dr_drain_filter__s8_4a_m1101_j1, dr_drain_filter, S8_4A, (0b1101, 1));
harness!(dr_drain_filter__s8_8g0_m1110_j0, dr_drain_filter, S8_8G0, (0b1110, 0));

#[derive(Clone, Copy, PartialEq)]
enum Rep {
    ReplaceEntry,
    ReplaceKey,
    ReplaceWith,
    EntryRemove,
    EntryInsert,
}
/// how the map is disposed of after the entry operation
#[derive(Clone, Copy, PartialEq)]
enum Fin {
    Drop,
    Drain,
    IntoIter1,
}
fn dr_entry(sh: Shape, opf: (Rep, Fin)) {
    let (op, fin) = opf;
    let (mut m, mut lg) = start(sh);
    let kid: u8 = kani::any();
    let k = lg.make_k(kid);
    let ret: bool = kani::any();
    let nv: u8 = kani::any();
    match m.verif_occupied_entry(k) {
        // absent: the probe key was dropped by the hook's `None` arm
        None => {}
        Some(mut e) => match op {
            Rep::ReplaceEntry => {
                let v = lg.make_v(nv);
                let (ok, ov) = e.replace_entry(v);
                lg.back_k(ok);
                lg.back_v(ov);
            }
            Rep::ReplaceKey => {
                let ok = e.replace_key();
                lg.back_k(ok);
            }
            Rep::ReplaceWith => {
                let mut made = None;
                if ret {
                    made = Some(lg.make_v(nv));
                }
                let _ = e.replace_entry_with(|_, old| {
                    // the closure owns `old`: it is dropped here
                    drop(old);
                    made
                });
            }
            Rep::EntryRemove => {
                let (ok, ov) = e.remove_entry();
                lg.back_k(ok);
                lg.back_v(ov);
            }
            Rep::EntryInsert => {
                let v = lg.make_v(nv);
                let ov = e.insert(v);
                lg.back_v(ov);
            }
        },
    }
    // the cached old-table iterator must still cover exactly the old table's elements, or a
    // later drain / into_iter (built from it) leaks what it does not cover
    if let Some((ot, it)) = m.verif_parts().1 {
        assert!(it.verif_agrees(ot), "[C06] after the entry operation the cached old-table iterator no longer covers the old table's elements (a later drain/into_iter leaks or double-drops them)");
    }
    match fin {
        Fin::Drop => drop(m),
        Fin::Drain => {
            for (k, v) in m.drain() {
                lg.back_k(k);
                lg.back_v(v);
            }
            drop(m);
        }
        Fin::IntoIter1 => {
            let mut it = m.into_iter();
            if let Some((k, v)) = it.next() {
                lg.back_k(k);
                lg.back_v(v);
            }
            drop(it);
        }
    }
    lg.settle();
    kani::cover!(true, "reach: end of harness");
}
// Disposing of the map through drain()/into_iter() after the entry operation (Fin::Drain,
// Fin::IntoIter1) runs CBMC out of memory (the operation's outcome makes the following
// traversal symbolic); the cursor-agreement assertion above covers what those would observe.
harness!(dr_entry_replace_entry__s8_8g0, dr_entry, S8_8G0, (Rep::ReplaceEntry, Fin::Drop));
harness!(dr_entry_replace_key__s8_8g0, dr_entry, S8_8G0, (Rep::ReplaceKey, Fin::Drop));
harness!(dr_entry_replace_with__s8_8g0, dr_entry, S8_8G0, (Rep::ReplaceWith, Fin::Drop));
harness!(dr_entry_replace_with__s8_8g4, dr_entry, S8_8G4, (Rep::ReplaceWith, Fin::Drop));
harness!(dr_entry_replace_with__s8_4one, dr_entry, S8_4ONE, (Rep::ReplaceWith, Fin::Drop));
harness!(dr_entry_remove__s8_8g4, dr_entry, S8_8G4, (Rep::EntryRemove, Fin::Drop));
harness!(dr_entry_insert__s8_4a, dr_entry, S8_4A, (Rep::EntryInsert, Fin::Drop));

/// reserve / shrink_to_fit / extend may move every leftover at once: each exactly once
fn dr_resize(sh: Shape, which: u8) {
    let (mut m, mut lg) = start(sh);
    match which {
        0 => {
            let n: usize = kani::any();
            m.reserve(n);
        }
        1 => m.shrink_to_fit(),
        _ => {
            let k = lg.make_k(kani::any());
            let v = lg.make_v(kani::any());
            m.extend([(k, v)]);
        }
    }
    let (nk, nv) = census(&m);
    unsafe {
        assert!(nk + DROPS_K == lg.created_k && nv + DROPS_V == lg.created_v, "[C06] an element was dropped (or duplicated) while the map still holds it");
    }
    drop(m);
    lg.settle();
    kani::cover!(true, "reach: end of harness");
}
harness!(dr_reserve__s8_4a, dr_resize, S8_4A, 0);
harness!(dr_reserve__s8_8g4, dr_resize, S8_8G4, 0);
harness!(dr_shrink_to_fit__s16_4a, dr_resize, S16_4A, 1);
harness!(dr_extend1__s8_4a, dr_resize, S8_4A, 2);

fn dr_clone(sh: Shape) {
    let (m, lg) = start(sh);
    let c = m.clone();
    let (nk, nv) = census(&c);
    assert!((nk, nv) == (lg.created_k, lg.created_v), "[C11] the clone does not hold the same elements as the source");
    unsafe {
        assert!(CLONES_K == lg.created_k && CLONES_V == lg.created_v, "[C06] clone() did not clone each element exactly once");
    }
    assert!(census(&m) == (lg.created_k, lg.created_v), "[C11] clone() changed the source");
    drop(c);
    unsafe {
        assert!(DROPS_K == lg.created_k && DROPS_V == lg.created_v, "[C06] dropping the clone dropped a wrong number of elements (shared or leaked)");
    }
    drop(m);
    lg.settle();
    kani::cover!(true, "reach: end of harness");
}
harness!(dr_clone__s8_4a, dr_clone, S8_4A);
harness!(dr_clone__s8_8g4, dr_clone, S8_8G4);
