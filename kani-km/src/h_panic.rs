//! C07 (partial, see DESIGN.md §5 C07): Kani has no unwinding, so a caught panic cannot be
//! executed. What is decided instead: at the *instant* a user callback runs inside a griddle
//! frame, the map must already be in a state that is consistent once the frame's locals are
//! gone (griddle has no drop guards on these paths), because that is the state
//! `catch_unwind` leaves behind. The callback inspects the map through a raw pointer.
use crate::common::*;
use crate::shapes::*;

macro_rules! harness {
    ($name:ident, $body:ident, $shape:expr) => {
        #[kani::proof]
        #[kani::unwind(34)]
        fn $name() {
            $body($shape)
        }
    };
}

/// INV minus the element in flight, asserted at a callback instant.
fn inv_at_instant(m: &M, gone: Option<u8>) {
    let (main, old) = m.verif_parts();
    let w = gone.unwrap_or(0);
    let sc = scan(m, &w);
    assert!(main.len() == sc.nfull_main, "[C07] at a callback instant the main table's count disagrees with its contents");
    if let Some((ot, it)) = old {
        assert!(ot.len() == sc.nfull_old, "[C07] at a callback instant the old table's count disagrees with its contents");
        assert!(
            it.verif_agrees(ot),
            "[C07] at the instant a user callback runs, the cached old-table iterator disagrees with the old table: a panic here leaves a map whose next carry over-reads"
        );
    }
    assert!(m.len() == sc.nfull_main + sc.nfull_old, "[C07] at a callback instant len() differs from the number of stored elements");
    if gone.is_some() {
        assert!(sc.count == 0, "[C07] the element handed to the closure is still stored while the closure owns it (double drop on panic)");
    }
}

fn pan_replace_entry_with(sh: Shape) {
    let mut m = build_kv(sh, 1);
    assume_distinct(&m);
    let k: u8 = kani::any();
    let mp: *const M = &m;
    let ret: Option<u8> = kani::any();
    let occupied = scan(&m, &k).val.is_some();
    // the handle comes from the guarded hook (the `Entry` enum is intractable, see h_entry.rs)
    if let Some(e) = m.verif_occupied_entry(k) {
        let _ = e.replace_entry_with(|kk, _v| {
            // the closure owns the value; if it panics now, this is the state that remains
            inv_at_instant(unsafe { &*mp }, Some(*kk));
            ret
        });
    }
    kani::cover!(occupied, "cls: closure ran");
    kani::cover!(true, "reach: end of harness");
    core::mem::forget(m);
}
harness!(pan_replace_entry_with__s8_4a, pan_replace_entry_with, S8_4A);
harness!(pan_replace_entry_with__s8_8g0, pan_replace_entry_with, S8_8G0);

fn pan_raw_replace_entry_with(sh: Shape) {
    let mut m = build_kv(sh, 1);
    assume_distinct(&m);
    let k: u8 = kani::any();
    let mp: *const M = &m;
    let ret: Option<u8> = kani::any();
    let occupied = scan(&m, &k).val.is_some();
    if let RawEntryMut::Occupied(e) = m.raw_entry_mut().from_key(&k) {
        let _ = e.replace_entry_with(|kk, _v| {
            inv_at_instant(unsafe { &*mp }, Some(*kk));
            ret
        });
    }
    kani::cover!(occupied, "cls: closure ran");
    kani::cover!(true, "reach: end of harness");
    core::mem::forget(m);
}
harness!(pan_raw_replace_entry_with__s8_4a, pan_raw_replace_entry_with, S8_4A);
harness!(pan_raw_replace_entry_with__s8_8g0, pan_raw_replace_entry_with, S8_8G0);
harness!(pan_raw_replace_entry_with__s8_8g4, pan_raw_replace_entry_with, S8_8G4);

// ------------------------------------------------------------------ retain / drain_filter predicates
/// the predicate inspects the map at its `at`-th invocation (symbolic): the crash point is a
/// solver variable. retain erases only after the predicate returned, so at every invocation
/// the map is fully consistent and still holds the element being examined.
fn pan_retain(sh: Shape) {
    let mut m = build_kv(sh, 1);
    assume_distinct(&m);
    let mp: *const M = &m;
    let mask: u16 = kani::any();
    let at: usize = kani::any();
    let mut calls = 0usize;
    let n = m.len();
    let mut removed = 0usize;
    m.retain(|k, _v| {
        if calls == at {
            let mm = unsafe { &*mp };
            inv_at_instant(mm, None);
            assert!(scan(mm, k).count == 1, "[C07] retain's predicate runs on an element that is not (or no longer) stored exactly once");
            assert!(mm.len() == n - removed, "[C07] at a retain predicate invocation len() does not account for the elements removed so far");
        }
        let keep = (mask >> (calls & 15)) & 1 == 1;
        calls += 1;
        if !keep {
            removed += 1;
        }
        keep
    });
    kani::cover!(at < n, "cls: crash point inside the traversal");
    kani::cover!(true, "reach: end of harness");
    core::mem::forget(m);
}
harness!(pan_retain__s8_4a, pan_retain, S8_4A);
harness!(pan_retain__s8_8g0, pan_retain, S8_8G0);
harness!(pan_retain__s8_8g4, pan_retain, S8_8G4);

/// drain_filter's predicate: answers and crash point concrete per harness (see h_retain.rs)
fn pan_drain_filter(sh: Shape, p: (u16, usize)) {
    let (pm, at) = p;
    let mut m = build_kv(sh, 1);
    assume_distinct(&m);
    let mp: *const M = &m;
    let mut calls = 0usize;
    {
        let df = m.drain_filter(|k, _v| {
            if calls == at {
                let mm = unsafe { &*mp };
                inv_at_instant(mm, None);
                assert!(scan(mm, k).count == 1, "[C07] drain_filter's predicate runs on an element that is not stored exactly once");
            }
            let hit = (pm >> (calls & 15)) & 1 == 1;
            calls += 1;
            hit
        });
        drop(df);
    }
    kani::cover!(calls > at, "cls: crash point reached");
    kani::cover!(true, "reach: end of harness");
    core::mem::forget(m);
}
macro_rules! harness_p {
    ($name:ident, $body:ident, $shape:expr, $j:expr) => {
        #[kani::proof]
        #[kani::unwind(34)]
        fn $name() {
            $body($shape, $j)
        }
    };
}
harness_p!(pan_drain_filter__s8_4a_m0111_at3, pan_drain_filter, S8_4A, (0b0111, 3));
harness_p!(pan_drain_filter__s8_4a_m1110_at2, pan_drain_filter, S8_4A, (0b1110, 2));
harness_p!(pan_drain_filter__s8_8g0_m0110_at3, pan_drain_filter, S8_8G0, (0b0110, 3));

// ------------------------------------------------------------------ closures of inserting entry calls
fn pan_or_insert_with(sh: Shape) {
    let mut m = build_kv(sh, 1);
    assume_distinct(&m);
    let mp: *const M = &m;
    let k: u8 = kani::any();
    let v: u8 = kani::any();
    let absent = scan(&m, &k).val.is_none();
    let _ = m.raw_entry_mut().from_key(&k).or_insert_with(|| {
        // runs before anything was changed: a panic here must leave the map untouched
        inv_at_instant(unsafe { &*mp }, None);
        (k, v)
    });
    kani::cover!(absent, "cls: closure ran");
    kani::cover!(true, "reach: end of harness");
    core::mem::forget(m);
}
harness!(pan_or_insert_with__u4f, pan_or_insert_with, U4F);
harness!(pan_or_insert_with__s8_4a, pan_or_insert_with, S8_4A);

fn pan_and_modify(sh: Shape) {
    let mut m = build_kv(sh, 1);
    assume_distinct(&m);
    let mp: *const M = &m;
    let k: u8 = kani::any();
    let present = scan(&m, &k).val.is_some();
    let _ = m.raw_entry_mut().from_key(&k).and_modify(|kk, _vv| {
        let mm = unsafe { &*mp };
        inv_at_instant(mm, None);
        assert!(scan(mm, kk).count == 1, "[C07] and_modify runs on an element that is not stored exactly once");
    });
    kani::cover!(present, "cls: closure ran");
    kani::cover!(true, "reach: end of harness");
    core::mem::forget(m);
}
harness!(pan_and_modify__s8_8g0, pan_and_modify, S8_8G0);

// ------------------------------------------------------------------ Hash called from griddle's carry
// A key type whose Hash impl inspects the map at its `HASH_AT`-th invocation. Inside `carry`
// the element being relocated has been taken out of the old table and is not yet in the new
// one: a panicking Hash loses exactly that element (documented) and nothing else.
use core::hash::{Hash, Hasher};
static mut HASH_CALLS: usize = 0;
static mut HASH_AT: usize = usize::MAX;
static mut HASH_MAP: *const HashMap<Hk, u8, S> = core::ptr::null();
static mut HASH_SEEN_IN_FLIGHT: bool = false;

#[derive(PartialEq, Eq, Clone, Copy)]
pub struct Hk(pub u8);
impl kani::Arbitrary for Hk {
    fn any() -> Self {
        Hk(kani::any())
    }
}
static mut HASH_IN_CHECK: bool = false;
impl Hash for Hk {
    fn hash<H: Hasher>(&self, s: &mut H) {
        unsafe {
            // hashes computed by the inspection itself (scan recomputes stored hashes) are not
            // invocations by griddle: neither counted nor inspected
            if !HASH_IN_CHECK {
                let c = HASH_CALLS;
                HASH_CALLS += 1;
                if c == HASH_AT && !HASH_MAP.is_null() {
                    HASH_IN_CHECK = true;
                    let mm = &*HASH_MAP;
                    let (main, old) = mm.verif_parts();
                    let sc = scan(mm, self);
                    assert!(main.len() == sc.nfull_main, "[C07] at a Hash invocation the main table's count disagrees with its contents");
                    if let Some((ot, it)) = old {
                        assert!(ot.len() == sc.nfull_old, "[C07] at a Hash invocation the old table's count disagrees with its contents");
                        assert!(it.verif_agrees(ot), "[C07] at a Hash invocation inside carry the cached old-table iterator disagrees with the old table: a panicking Hash leaves an element the iterator no longer covers (or a stale count)");
                    }
                    assert!(sc.count <= 1, "[C07] at a Hash invocation the key being hashed is stored twice");
                    if sc.count == 0 {
                        HASH_SEEN_IN_FLIGHT = true;
                    }
                    HASH_IN_CHECK = false;
                }
            }
        }
        s.write_u8(self.0)
    }
}

fn pan_hash_in_insert(sh: Shape, at: usize) {
    let mut m: HashMap<Hk, u8, S> = build::<Hk, u8>(sh, 1);
    assume_distinct(&m);
    let k: Hk = kani::any();
    let v: u8 = kani::any();
    // the crash point (index of the Hash invocation) is concrete per harness: a symbolic one
    // puts the inspection code at every hashing site and CBMC does not finish
    unsafe {
        HASH_CALLS = 0;
        HASH_AT = at;
        HASH_MAP = &m;
        HASH_SEEN_IN_FLIGHT = false;
    }
    let _ = m.insert(k, v);
    let calls = unsafe { HASH_CALLS };
    unsafe {
        HASH_MAP = core::ptr::null();
    }
    kani::cover!(calls > 1 && at >= 1 && at < calls, "cls: crash point inside carry");
    kani::cover!(unsafe { HASH_SEEN_IN_FLIGHT }, "cls: the hashed element was in flight (removed from the old table, not yet in the new one)");
    kani::cover!(true, "reach: end of harness");
    core::mem::forget(m);
}
harness_p!(pan_hash_in_insert__s8_4a_at1, pan_hash_in_insert, S8_4A, 1);
harness_p!(pan_hash_in_insert__s8_4a_at2, pan_hash_in_insert, S8_4A, 2);
harness_p!(pan_hash_in_insert__s8_8g4_at1, pan_hash_in_insert, S8_8G4, 1);
harness_p!(pan_hash_in_insert__u4f_at2, pan_hash_in_insert, U4F, 2);
harness_p!(pan_hash_in_insert__u4f_at0, pan_hash_in_insert, U4F, 0);

/// Hash invoked from `reserve`'s move-everything path (carry_all): same instant check.
fn pan_hash_in_reserve(sh: Shape, at: usize) {
    let mut m: HashMap<Hk, u8, S> = build::<Hk, u8>(sh, 1);
    assume_distinct(&m);
    unsafe {
        HASH_CALLS = 0;
        HASH_AT = at;
        HASH_MAP = &m;
        HASH_SEEN_IN_FLIGHT = false;
    }
    // the least amount the main table cannot absorb next to the leftovers: carry_all, then grow
    let add = m.capacity() - m.len();
    m.reserve(add);
    let calls = unsafe { HASH_CALLS };
    unsafe {
        HASH_MAP = core::ptr::null();
    }
    kani::cover!(calls > at, "cls: crash point reached");
    kani::cover!(unsafe { HASH_SEEN_IN_FLIGHT }, "cls: the hashed element was in flight (removed from the old table, not yet in the new one)");
    kani::cover!(true, "reach: end of harness");
    core::mem::forget(m);
}
harness_p!(pan_hash_in_reserve__s8_4a_at0, pan_hash_in_reserve, S8_4A, 0);
harness_p!(pan_hash_in_reserve__s8_4a_at1, pan_hash_in_reserve, S8_4A, 1);
harness_p!(pan_hash_in_reserve__s8_8g4_at1, pan_hash_in_reserve, S8_8G4, 1);
