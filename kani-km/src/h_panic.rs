//! C07 (partial, see DESIGN.md §5 C07): Kani has no unwinding, so a caught panic cannot be
//! executed. What is decided instead: at the *instant* a user callback runs inside a griddle
//! frame, the map must already be in a state that is consistent once the frame's locals are
//! gone (griddle has no drop guards on these paths), because that is the state
//! `catch_unwind` leaves behind. The callback inspects the map through a raw pointer.
use crate::common::*;
use crate::shapes::*;

macro_rules! harness {
    ($name:ident, $body:ident, $shape:expr) => {
        #[kani::proof]
        #[kani::unwind(34)]
        fn $name() {
            $body($shape)
        }
    };
}

/// INV minus the element in flight, asserted at a callback instant.
fn inv_at_instant(m: &M, gone: Option<u8>) {
    let (main, old) = m.verif_parts();
    let w = gone.unwrap_or(0);
    let sc = scan(m, &w);
    assert!(main.len() == sc.nfull_main, "[C07] at a callback instant the main table's count disagrees with its contents");
    if let Some((ot, it)) = old {
        assert!(ot.len() == sc.nfull_old, "[C07] at a callback instant the old table's count disagrees with its contents");
        assert!(
            it.verif_agrees(ot),
            "[C07] at the instant a user callback runs, the cached old-table iterator disagrees with the old table: a panic here leaves a map whose next carry over-reads"
        );
    }
    assert!(m.len() == sc.nfull_main + sc.nfull_old, "[C07] at a callback instant len() differs from the number of stored elements");
    if gone.is_some() {
        assert!(sc.count == 0, "[C07] the element handed to the closure is still stored while the closure owns it (double drop on panic)");
    }
}

fn pan_replace_entry_with(sh: Shape) {
    let mut m = build_kv(sh, 1);
    assume_distinct(&m);
    let k: u8 = kani::any();
    let mp: *const M = &m;
    let ret: Option<u8> = kani::any();
    let occupied = scan(&m, &k).val.is_some();
    // the handle comes from the guarded hook (the `Entry` enum is intractable, see h_entry.rs)
    if let Some(e) = m.verif_occupied_entry(k) {
        let _ = e.replace_entry_with(|kk, _v| {
            // the closure owns the value; if it panics now, this is the state that remains
            inv_at_instant(unsafe { &*mp }, Some(*kk));
            ret
        });
    }
    kani::cover!(occupied, "cls: closure ran");
    kani::cover!(true, "reach: end of harness");
    core::mem::forget(m);
}
harness!(pan_replace_entry_with__s8_4a, pan_replace_entry_with, S8_4A);
harness!(pan_replace_entry_with__s8_8g0, pan_replace_entry_with, S8_8G0);

fn pan_raw_replace_entry_with(sh: Shape) {
    let mut m = build_kv(sh, 1);
    assume_distinct(&m);
    let k: u8 = kani::any();
    let mp: *const M = &m;
    let ret: Option<u8> = kani::any();
    let occupied = scan(&m, &k).val.is_some();
    if let RawEntryMut::Occupied(e) = m.raw_entry_mut().from_key(&k) {
        let _ = e.replace_entry_with(|kk, _v| {
            inv_at_instant(unsafe { &*mp }, Some(*kk));
            ret
        });
    }
    kani::cover!(occupied, "cls: closure ran");
    kani::cover!(true, "reach: end of harness");
    core::mem::forget(m);
}
harness!(pan_raw_replace_entry_with__s8_4a, pan_raw_replace_entry_with, S8_4A);
harness!(pan_raw_replace_entry_with__s8_8g0, pan_raw_replace_entry_with, S8_8G0);
harness!(pan_raw_replace_entry_with__s8_8g4, pan_raw_replace_entry_with, S8_8G4);
