//! C09: retain / drain_filter partition the map exactly by the predicate.
//! Every predicate on a given map is determined by the answers it gives at its 1st, 2nd, ...
//! invocation (each element is visited once — which is itself checked), so "all predicates"
//! = all answer masks over the call index. retain: the mask is a solver variable.
//! drain_filter: the mask is *concrete* per harness and enumerated (a symbolic answer makes
//! the position of griddle's cached iterators symbolic and CBMC does not finish); keys,
//! values and the mutation constant stay symbolic throughout.
use crate::common::*;
use crate::shapes::*;

macro_rules! harness {
    ($name:ident, $body:ident, $shape:expr) => {
        #[kani::proof]
        #[kani::unwind(34)]
        fn $name() {
            $body($shape)
        }
    };
    ($name:ident, $body:ident, $shape:expr, $j:expr) => {
        #[kani::proof]
        #[kani::unwind(34)]
        fn $name() {
            $body($shape, $j)
        }
    };
}
const END: usize = usize::MAX;

fn rt_retain(sh: Shape) {
    let mut m = build_kv(sh, 1);
    assume_distinct(&m);
    let q: u8 = kani::any();
    let mask: u16 = kani::any();
    let c: u8 = kani::any();
    let pre_q = ref_get(&m, &q);
    let n = m.len();
    let l0 = old_len(&m);
    let mut calls = 0usize;
    let mut calls_q = 0usize;
    let mut keep_q = false;
    let mut kept = 0usize;
    reset_counters();
    m.retain(|k, v| {
        let keep = (mask >> (calls & 15)) & 1 == 1;
        calls += 1;
        if *k == q {
            calls_q += 1;
            keep_q = keep;
            assert!(Some(*v) == pre_q, "[C09] retain's predicate saw a value the map does not hold for that key");
        }
        *v ^= c;
        if keep {
            kept += 1;
        }
        keep
    });
    assert!(calls == n, "[C09] retain did not call the predicate exactly once per element");
    assert!(calls_q == if pre_q.is_some() { 1 } else { 0 }, "[C09] retain called the predicate on an element not exactly once");
    assert!(m.len() == kept, "[C09] len() after retain is not the number of elements the predicate kept");
    let sq = scan(&m, &q);
    let want = match pre_q {
        Some(v) if keep_q => Some(v ^ c),
        _ => None,
    };
    assert!(sq.val == want, "[C09] retain kept/dropped the wrong element or lost the predicate's mutation");
    assert!(hashes() == 0 && acct::allocs() == 0 && acct::inserts() == 0, "[C02] retain hashed, allocated or moved elements");
    assert!(m.get(&q).copied() == want, "[C09] get() disagrees after retain");
    post_inv(&m, &sq);
    kani::cover!(l0 > 0 && is_split(&m) && old_len(&m) == 0, "cls: retain emptied the old table (left installed)");
    kani::cover!(l0 > 0 && old_len(&m) == l0 && m.len() < n, "cls: retain removed only main-table elements");
    kani::cover!(kept == n && n > 0, "cls: retain kept everything");
    kani::cover!(true, "reach: end of harness");
    core::mem::forget(m);
}
harness!(rt_retain__u8_3t, rt_retain, U8_3T);
harness!(rt_retain__s8_4a, rt_retain, S8_4A);
harness!(rt_retain__s8_8g0, rt_retain, S8_8G0);
harness!(rt_retain__s8_8g4, rt_retain, S8_8G4);
harness!(rt_retain__s8_e, rt_retain, S8_E);
harness!(rt_retain__s16_8, rt_retain, S16_8);
harness!(rt_retain__s8m0_4a, rt_retain, S8M0_4A);

/// `pm`: concrete answer mask over the predicate's call index; `j`: next() calls made on the
/// iterator (END = until exhausted, then once more); `forget`: mem::forget instead of drop.
fn rt_drain_filter(sh: Shape, p: (u16, usize, bool)) {
    let (pm, j, forget) = p;
    let mut m = build_kv(sh, 1);
    assume_distinct(&m);
    let q: u8 = kani::any();
    let c: u8 = kani::any();
    let pre_q = ref_get(&m, &q);
    let n = m.len();
    let l0 = old_len(&m);
    let j = if j == END { n + 1 } else { j };
    let mut calls = 0usize;
    let mut calls_q = 0usize;
    let mut hit_q = false;
    let mut yielded = 0usize;
    let mut yielded_q = 0usize;
    {
        let mut df = m.drain_filter(|k, v| {
            let hit = (pm >> (calls & 15)) & 1 == 1;
            calls += 1;
            if *k == q {
                calls_q += 1;
                hit_q = hit;
            }
            if !hit {
                *v ^= c;
            }
            hit
        });
        let mut steps = 0usize;
        while steps < j {
            if let Some((k, v)) = df.next() {
                if k == q {
                    yielded_q += 1;
                    assert!(Some(v) == pre_q, "[C09] drain_filter yielded a wrong value");
                }
                yielded += 1;
                assert!(yielded <= n, "[C09] drain_filter yielded more elements than the map held");
            }
            steps += 1;
        }
        if forget {
            core::mem::forget(df);
        }
    }
    assert!(yielded_q <= 1 && calls_q <= 1, "[C09] drain_filter visited an element twice");
    assert!(yielded_q == 0 || hit_q, "[C09] drain_filter yielded an element the predicate rejected");
    assert!(calls <= n, "[C09] drain_filter called the predicate more often than there are elements");
    let sq = scan(&m, &q);
    if !forget {
        // consumed or dropped early: every matching element is gone, the others stay (mutated once)
        assert!(calls == n, "[C09] drain_filter (consumed or dropped) did not visit every element");
        assert!(calls_q == if pre_q.is_some() { 1 } else { 0 }, "[C09] drain_filter did not call the predicate exactly once per element");
        let want = match pre_q {
            Some(_) if hit_q => None,
            Some(v) => Some(v ^ c),
            None => None,
        };
        assert!(sq.val == want, "[C09] after drain_filter (consumed or dropped) the map is not exactly the non-matching elements");
        assert!(m.len() == n - (pm & ((1u16 << n) - 1)).count_ones() as usize, "[C09] len() after drain_filter is not the number of rejected elements");
    } else {
        // forgotten: only the elements already yielded are gone
        assert!(m.len() == n - yielded, "[C09] forgetting drain_filter removed elements that were not yielded");
        if yielded_q == 1 {
            assert!(sq.val.is_none(), "[C09] a yielded element is still in the map");
        } else if let Some(v) = pre_q {
            assert!(sq.val == Some(if calls_q == 1 && !hit_q { v ^ c } else { v }), "[C09] forgetting drain_filter changed an element that was not yielded");
        }
    }
    assert!(m.len() == sq.nfull_main + sq.nfull_old, "[C09] len() wrong after drain_filter");
    // C03: drain_filter removes through `remove`, which frees an emptied old table
    post_freed_if_empty(&m, l0);
    post_inv(&m, &sq);
    assert!(m.get(&q).copied() == sq.val, "[C09] get() disagrees after drain_filter");
    kani::cover!(l0 > 0 && !is_split(&m), "cls: drain_filter emptied and freed the old table");
    kani::cover!(pre_q.is_some() && yielded_q == 1, "cls: witness element yielded");
    kani::cover!(pre_q.is_some() && calls_q == 1 && !hit_q, "cls: witness element rejected and kept");
    kani::cover!(true, "reach: end of harness");
    core::mem::forget(m);
}
// S8_4A: main 2 + old 2 (n = 4); visitation order: main first, then old
harness!(rt_drain_filter__s8_4a_m0000_end, rt_drain_filter, S8_4A, (0b0000, END, false));
harness!(rt_drain_filter__s8_4a_m1111_end, rt_drain_filter, S8_4A, (0b1111, END, false));
harness!(rt_drain_filter__s8_4a_m1100_end, rt_drain_filter, S8_4A, (0b1100, END, false));
harness!(rt_drain_filter__s8_4a_m0011_end, rt_drain_filter, S8_4A, (0b0011, END, false));
harness!(rt_drain_filter__s8_4a_m0111_end, rt_drain_filter, S8_4A, (0b0111, END, false));
harness!(rt_drain_filter__s8_4a_m0110_end, rt_drain_filter, S8_4A, (0b0110, END, false));
harness!(rt_drain_filter__s8_4a_m1010_j1, rt_drain_filter, S8_4A, (0b1010, 1, false));
harness!(rt_drain_filter__s8_4a_m1100_j1, rt_drain_filter, S8_4A, (0b1100, 1, false));
harness!(rt_drain_filter__s8m0_4a_m01_j1, rt_drain_filter, S8M0_4A, (0b01, 1, false));
harness!(rt_drain_filter__s8m0_4a_m11_end, rt_drain_filter, S8M0_4A, (0b11, END, false));
harness!(rt_drain_filter__s8_4a_m1111_j0, rt_drain_filter, S8_4A, (0b1111, 0, false));
harness!(rt_drain_filter__s8_4a_m1101_j2f, rt_drain_filter, S8_4A, (0b1101, 2, true));
harness!(rt_drain_filter__s8_4a_m1111_j3f, rt_drain_filter, S8_4A, (0b1111, 3, true));
// S8_8G0: main 1 + old 3 in two groups
harness!(rt_drain_filter__s8_8g0_m1110_end, rt_drain_filter, S8_8G0, (0b1110, END, false));
harness!(rt_drain_filter__s8_8g0_m0100_end, rt_drain_filter, S8_8G0, (0b0100, END, false));
harness!(rt_drain_filter__s8_8g0_m1010_j1, rt_drain_filter, S8_8G0, (0b1010, 1, false));
harness!(rt_drain_filter__s8_8g0_m1111_j2f, rt_drain_filter, S8_8G0, (0b1111, 2, true));
// S8_8G4: main 1 + old 2, cursor advanced
harness!(rt_drain_filter__s8_8g4_m110_end, rt_drain_filter, S8_8G4, (0b110, END, false));
harness!(rt_drain_filter__s8_8g4_m101_j1, rt_drain_filter, S8_8G4, (0b101, 1, false));
harness!(rt_drain_filter__s8_8g4_m010_j1f, rt_drain_filter, S8_8G4, (0b010, 1, true));
// unsplit with a tombstone; split with an empty old table
harness!(rt_drain_filter__u8_3t_m101_end, rt_drain_filter, U8_3T, (0b101, END, false));
harness!(rt_drain_filter__u8_3t_m111_j1, rt_drain_filter, U8_3T, (0b111, 1, false));
harness!(rt_drain_filter__s8_e_m010_end, rt_drain_filter, S8_E, (0b010, END, false));
