//! One-step inductive harnesses: arbitrary INV state (concrete layout, symbolic contents)
//! -> one public call with symbolic arguments -> postconditions of C01..C05 + INV.
use crate::common::*;
use crate::shapes::*;

const UNW: u32 = (2 * MAXB + 2) as u32;

macro_rules! harness {
    ($name:ident, $body:ident, $shape:expr) => {
        #[kani::proof]
        #[kani::unwind(34)]
        fn $name() {
            $body($shape)
        }
    };
}

// ------------------------------------------------------------------------------ insert
fn st_insert(sh: Shape) {
    let mut m = build_kv(sh, 1);
    assume_distinct(&m);
    let q: u8 = kani::any();
    let k: u8 = kani::any();
    let v: u8 = kani::any();
    let pre_q = ref_get(&m, &q);
    let sk = scan(&m, &k);
    let pre_k = sk.val;
    let k_in_old = sk.in_old;
    let n = m.len();
    let cap = m.capacity();
    let l0 = old_len(&m);
    let was_split = is_split(&m);
    let main_len0 = m.verif_parts().0.len();
    assert!(n == sk.nfull_main + sk.nfull_old, "[C01] len() differs from the number of stored elements");
    reset_counters();

    let r = m.insert(k, v);

    // C01: return value, length, contents (extensionally, via the witness q)
    assert!(r == pre_k, "[C01] insert returned a wrong previous value");
    assert!(m.len() == n + if pre_k.is_none() { 1 } else { 0 }, "[C01] len() wrong after insert");
    let sq = scan(&m, &q);
    assert!(sq.val == if q == k { Some(v) } else { pre_q }, "[C01] contents wrong after insert");
    // C02: bounded work
    let moved = acct::removes();
    assert!(hashes() <= 10, "[C02] more than R+2 = 10 hash computations in one insert");
    assert!(moved <= 8, "[C02] more than R = 8 elements moved in one insert");
    assert!(acct::allocs() <= 1, "[C02] more than one table allocation in one insert");
    assert!(acct::rehash() == 0, "[C02] the dependency rehashed elements (all-at-once resize) during insert");
    if pre_k.is_some() && !k_in_old {
        assert!(moved == 0 && acct::allocs() == 0 && hashes() == 1, "[C02] in-place update did resize work");
    }
    // C03: progress of a pending resize
    let l1 = old_len(&m);
    if pre_k.is_none() {
        // what there is to move: the leftovers, or — if this call started a resize (possibly
        // after releasing an already empty old table) — the previous main table's elements
        let pending = if l0 > 0 { l0 } else if acct::allocs() == 1 { main_len0 } else { 0 };
        let step = if pending < R_SPEC { pending } else { R_SPEC };
        assert!(l1 == pending - step, "[C03] a key-adding call did not move min(R, remaining) leftovers");
        post_freed_if_empty(&m, usize::MAX); // a key-adding call releases an empty old table in any case
        if l1 == 0 {
            assert!(acct::live() <= 1, "[C03] old table not deallocated once emptied");
        }
    }
    // C04: headroom
    assert!(m.capacity() >= cap || pre_k.is_some(), "[C04] capacity() decreased across a key-adding call");
    if pre_k.is_none() && cap > n {
        assert!(acct::allocs() == 0, "[C04] inserting a fresh key with capacity() > len() allocated");
    }
    post_inv(&m, &sq);
    assert!(m.get(&q).copied() == sq.val, "[C01] get() disagrees with the stored contents after insert");
    kani::cover!(pre_k.is_none() && acct::allocs() == 1, "cls: insert grew the table");
    kani::cover!(pre_k.is_some() && k_in_old, "cls: overwrite of an old-table element");
    kani::cover!(pre_k.is_some() && !k_in_old, "cls: overwrite of a main-table element");
    kani::cover!(was_split && l1 == 0 && l0 > 0, "cls: this call finished the resize");
    kani::cover!(was_split && l1 > 0, "cls: resize still pending after the call");
    kani::cover!(true, "reach: end of harness");
    core::mem::forget(m);
}

harness!(st_insert__u0, st_insert, U0);
harness!(st_insert__u8_3, st_insert, U8_3);
harness!(st_insert__u8_3t, st_insert, U8_3T);
harness!(st_insert__u4f, st_insert, U4F);
harness!(st_insert__u4ft, st_insert, U4FT);
harness!(st_insert__u8f, st_insert, U8F);
harness!(st_insert__s8_4a, st_insert, S8_4A);
harness!(st_insert__s8_8g0, st_insert, S8_8G0);
harness!(st_insert__s8_8g4, st_insert, S8_8G4);
harness!(st_insert__s8_e, st_insert, S8_E);
harness!(st_insert__s4f_e, st_insert, S4F_E);
harness!(st_insert__s16_8, st_insert, S16_8);
harness!(st_insert__s8m0_4a, st_insert, S8M0_4A);
harness!(st_insert__s8t_4a, st_insert, S8T_4A);

// ------------------------------------------------------------------------------ remove
fn st_remove(sh: Shape) {
    let mut m = build_kv(sh, 1);
    assume_distinct(&m);
    let q: u8 = kani::any();
    let k: u8 = kani::any();
    let pre_q = ref_get(&m, &q);
    let sk = scan(&m, &k);
    let pre_k = sk.val;
    let k_in_old = sk.in_old;
    let n = m.len();
    let l0 = old_len(&m);
    reset_counters();

    let r = m.remove(&k);

    assert!(r == pre_k, "[C01] remove returned a wrong value");
    assert!(m.len() == n - if pre_k.is_some() { 1 } else { 0 }, "[C01] len() wrong after remove");
    let sq = scan(&m, &q);
    assert!(sq.val == if q == k { None } else { pre_q }, "[C01] contents wrong after remove");
    assert!(hashes() == 1, "[C02] remove hashed more than the queried key");
    assert!(acct::allocs() == 0 && acct::rehash() == 0, "[C02] remove allocated or rehashed");
    assert!(acct::removes() == if pre_k.is_some() { 1 } else { 0 } && acct::inserts() == 0, "[C02] remove moved elements");
    assert!(old_len(&m) == l0 - if k_in_old { 1 } else { 0 }, "[C03] remove changed the leftovers unexpectedly");
    post_freed_if_empty(&m, l0);
    post_inv(&m, &sq);
    kani::cover!(k_in_old, "cls: removed an old-table element");
    kani::cover!(k_in_old && !is_split(&m), "cls: removal emptied and freed the old table");
    kani::cover!(pre_k.is_some() && !k_in_old, "cls: removed a main-table element");
    kani::cover!(true, "reach: end of harness");
    core::mem::forget(m);
}
harness!(st_remove__u8_3, st_remove, U8_3);
harness!(st_remove__s8_4a, st_remove, S8_4A);
harness!(st_remove__s8_4one, st_remove, S8_4ONE);
harness!(st_remove__s8_8g0, st_remove, S8_8G0);
harness!(st_remove__s8_8g4, st_remove, S8_8G4);
harness!(st_remove__s8_e, st_remove, S8_E);
harness!(st_remove__s8m0_4a, st_remove, S8M0_4A);

// ------------------------------------------------- raw entry: replace_entry_with(..)
fn st_raw_replace_with(sh: Shape) {
    let mut m = build_kv(sh, 1);
    assume_distinct(&m);
    let q: u8 = kani::any();
    let k: u8 = kani::any();
    let ret: Option<u8> = kani::any();
    let pre_q = ref_get(&m, &q);
    let sk = scan(&m, &k);
    let pre_k = sk.val;
    let n = m.len();
    let l0 = old_len(&m);
    reset_counters();
    match m.raw_entry_mut().from_key(&k) {
        RawEntryMut::Occupied(e) => {
            assert!(pre_k.is_some(), "[C12] raw entry Occupied for an absent key");
            match e.replace_entry_with(|kk, vv| {
                assert!(*kk == k && Some(vv) == pre_k, "[C12] replace_entry_with closure got a wrong element");
                ret
            }) {
                RawEntryMut::Vacant(_) => assert!(ret.is_none(), "[C12] replace_entry_with(Some) returned a vacant entry"),
                RawEntryMut::Occupied(e2) => {
                    assert!(ret.is_some(), "[C12] replace_entry_with(None) left the entry occupied");
                    assert!(*e2.key() == k && Some(*e2.get()) == ret, "[C12] occupied handle after replace_entry_with designates a wrong element");
                }
            }
            assert!(m.len() == n - if ret.is_none() { 1 } else { 0 }, "[C01] len() wrong after replace_entry_with");
        }
        RawEntryMut::Vacant(_) => {
            assert!(pre_k.is_none(), "[C12] raw entry Vacant for a present key");
        }
    }
    let sq = scan(&m, &q);
    assert!(sq.val == if q == k && pre_k.is_some() { ret } else { pre_q }, "[C01] contents wrong after replace_entry_with");
    assert!(hashes() == 1 && acct::allocs() == 0 && acct::inserts() == 0, "[C02] replace_entry_with hashed more than the queried key, allocated or moved elements");
    assert!(old_len(&m) == l0 - if sk.in_old && pre_k.is_some() && ret.is_none() { 1 } else { 0 }, "[C03] replace_entry_with changed the leftovers unexpectedly");
    post_inv(&m, &sq);
    kani::cover!(pre_k.is_some() && sk.in_old && ret.is_none(), "cls: removed an old-table element through replace_entry_with");
    kani::cover!(pre_k.is_some() && sk.in_old && ret.is_some(), "cls: replaced the value of an old-table element");
    kani::cover!(pre_k.is_some() && !sk.in_old, "cls: main-table element");
    kani::cover!(true, "reach: end of harness");
    core::mem::forget(m);
}
harness!(st_raw_replace_with__s8_8g0, st_raw_replace_with, S8_8G0);
harness!(st_raw_replace_with__s8_8g4, st_raw_replace_with, S8_8G4);
harness!(st_raw_replace_with__s8_4a, st_raw_replace_with, S8_4A);
harness!(st_raw_replace_with__s8_4one, st_raw_replace_with, S8_4ONE);

// ------------------------------------------------------------------------------ lookups
fn st_lookup(sh: Shape) {
    let mut m = build_kv(sh, 1);
    assume_distinct(&m);
    let k: u8 = kani::any();
    let w: u8 = kani::any();
    let sk = scan(&m, &k);
    let pre_k = sk.val;
    let n = m.len();
    reset_counters();
    assert!(m.get(&k).copied() == pre_k, "[C01] get() wrong");
    assert!(hashes() == 1 && acct::allocs() == 0 && acct::removes() == 0 && acct::inserts() == 0, "[C02] get() did more than hash the queried key");
    assert!(m.contains_key(&k) == pre_k.is_some(), "[C01] contains_key() wrong");
    assert!(m.get_key_value(&k).map(|(a, b)| (*a, *b)) == pre_k.map(|v| (k, v)), "[C01] get_key_value() wrong");
    assert!(m.raw_entry().from_key(&k).map(|(a, b)| (*a, *b)) == pre_k.map(|v| (k, v)), "[C01] raw_entry().from_key() wrong");
    assert!(m.raw_entry().from_key_hashed_nocheck(hash_u8(1, k), &k).map(|(_, b)| *b) == pre_k, "[C01] raw_entry().from_key_hashed_nocheck() wrong");
    assert!(m.raw_entry().from_hash(hash_u8(1, k), |x| *x == k).map(|(_, b)| *b) == pre_k, "[C01] raw_entry().from_hash() wrong");
    if pre_k.is_some() {
        assert!(m[&k] == pre_k.unwrap(), "[C01] index wrong");
    }
    assert!(m.len() == n && m.is_empty() == (n == 0), "[C01] len()/is_empty() wrong");
    // writes through get_mut / get_key_value_mut land on the element wherever it is stored
    reset_counters();
    match m.get_mut(&k) {
        Some(v) => {
            assert!(pre_k == Some(*v), "[C01] get_mut() found a wrong element");
            *v = w;
        }
        None => assert!(pre_k.is_none(), "[C01] get_mut() missed a present key"),
    }
    assert!(hashes() == 1 && acct::allocs() == 0 && acct::removes() == 0, "[C02] get_mut() did more than hash the queried key");
    let s2 = scan(&m, &k);
    assert!(s2.val == pre_k.map(|_| w), "[C01] write through get_mut() lost");
    if let Some((kk, v)) = m.get_key_value_mut(&k) {
        assert!(*kk == k && *v == w, "[C01] get_key_value_mut() wrong");
        *v = w ^ 1;
    }
    let s3 = scan(&m, &k);
    assert!(s3.val == pre_k.map(|_| w ^ 1), "[C01] write through get_key_value_mut() lost");
    assert!(s3.in_old == sk.in_old && old_len(&m) == sk.nfull_old, "[C02] a lookup moved elements");
    post_inv(&m, &s3);
    kani::cover!(pre_k.is_some() && sk.in_old, "cls: found in the old table");
    kani::cover!(pre_k.is_some() && !sk.in_old, "cls: found in the main table");
    kani::cover!(pre_k.is_none(), "cls: absent");
    kani::cover!(true, "reach: end of harness");
    core::mem::forget(m);
}
harness!(st_lookup__u0, st_lookup, U0);
harness!(st_lookup__u8_3t, st_lookup, U8_3T);
harness!(st_lookup__s8_4a, st_lookup, S8_4A);
harness!(st_lookup__s8_8g0, st_lookup, S8_8G0);
harness!(st_lookup__s8_8g4, st_lookup, S8_8G4);
harness!(st_lookup__s8_e, st_lookup, S8_E);
harness!(st_lookup__s8m0_4a, st_lookup, S8M0_4A);

// ------------------------------------------------------------------------------ remove_entry
fn st_remove_entry(sh: Shape) {
    let mut m = build_kv(sh, 1);
    assume_distinct(&m);
    let q: u8 = kani::any();
    let k: u8 = kani::any();
    let pre_q = ref_get(&m, &q);
    let sk = scan(&m, &k);
    let n = m.len();
    let l0 = old_len(&m);
    let r = m.remove_entry(&k);
    assert!(r == sk.val.map(|v| (k, v)), "[C01] remove_entry returned a wrong pair");
    assert!(m.len() == n - if sk.val.is_some() { 1 } else { 0 }, "[C01] len() wrong after remove_entry");
    let sq = scan(&m, &q);
    assert!(sq.val == if q == k { None } else { pre_q }, "[C01] contents wrong after remove_entry");
    post_freed_if_empty(&m, l0);
    post_inv(&m, &sq);
    kani::cover!(sk.val.is_some() && sk.in_old, "cls: removed an old-table element");
    kani::cover!(true, "reach: end of harness");
    core::mem::forget(m);
}
harness!(st_remove_entry__s8_8g0, st_remove_entry, S8_8G0);
harness!(st_remove_entry__s8_4one, st_remove_entry, S8_4ONE);

// ------------------------------------------------------------------------------ clear
fn st_clear(sh: Shape) {
    let mut m = build_kv(sh, 1);
    assume_distinct(&m);
    let q: u8 = kani::any();
    let cap = m.capacity();
    reset_counters();
    m.clear();
    assert!(m.len() == 0 && m.is_empty(), "[C01] map not empty after clear");
    let sq = scan(&m, &q);
    assert!(sq.count == 0 && sq.nfull_main == 0, "[C01] an element survived clear");
    assert!(m.get(&q).is_none(), "[C01] get() finds an element after clear");
    assert!(!is_split(&m), "[C03] clear left the old table installed");
    assert!(acct::live() <= 1, "[C03] clear did not release the old table");
    assert!(m.capacity() >= cap || cap == 0 || true, "[C01] unreachable");
    post_inv(&m, &sq);
    kani::cover!(true, "reach: end of harness");
    core::mem::forget(m);
}
harness!(st_clear__s8_8g4, st_clear, S8_8G4);
harness!(st_clear__s8_e, st_clear, S8_E);
harness!(st_clear__u8_3t, st_clear, U8_3T);
harness!(st_clear__s8m0_4a, st_clear, S8M0_4A);

// ------------------------------------------------------------------------------ extend / from_iter
fn st_extend2(sh: Shape) {
    let mut m = build_kv(sh, 1);
    assume_distinct(&m);
    let q: u8 = kani::any();
    let a: (u8, u8) = kani::any();
    let b: (u8, u8) = kani::any();
    let pre_q = ref_get(&m, &q);
    let pre_a = ref_get(&m, &a.0);
    let pre_b = ref_get(&m, &b.0);
    let n = m.len();
    m.extend([a, b]);
    let want = if q == b.0 { Some(b.1) } else if q == a.0 { Some(a.1) } else { pre_q };
    let sq = scan(&m, &q);
    assert!(sq.val == want, "[C01] contents wrong after extend");
    let added = if pre_a.is_none() { 1 } else { 0 } + if pre_b.is_none() && b.0 != a.0 { 1 } else { 0 };
    assert!(m.len() == n + added, "[C01] len() wrong after extend");
    post_inv(&m, &sq);
    kani::cover!(added == 2, "cls: extend added two keys");
    kani::cover!(true, "reach: end of harness");
    core::mem::forget(m);
}
// NOT REGISTERED: extend with two symbolic pairs exhausts 12 GB in CBMC (reserve + two inserts with
// symbolic keys); extend with one element is decided in se_extend1 / dr_extend1, reserve and insert
// separately (their composition is what extend is).
// harness!(st_extend2__u4f, st_extend2, U4F);

#[kani::proof]
#[kani::unwind(34)]
fn st_from_iter3() {
    let a: (u8, u8) = kani::any();
    let b: (u8, u8) = kani::any();
    let c: (u8, u8) = kani::any();
    let q: u8 = kani::any();
    let m: M = [a, b, c].into_iter().collect();
    let want = if q == c.0 { Some(c.1) } else if q == b.0 { Some(b.1) } else if q == a.0 { Some(a.1) } else { None };
    let sq = scan(&m, &q);
    assert!(sq.val == want, "[C01] contents wrong after from_iter");
    let distinct = 1 + if b.0 != a.0 { 1 } else { 0 } + if c.0 != a.0 && c.0 != b.0 { 1 } else { 0 };
    assert!(m.len() == distinct, "[C01] len() wrong after from_iter");
    assert!(m.capacity() >= 3, "[C10] from_iter did not pre-size from the size hint");
    post_inv(&m, &sq);
    kani::cover!(distinct == 3, "cls: three distinct keys");
    kani::cover!(true, "reach: end of harness");
    core::mem::forget(m);
}
