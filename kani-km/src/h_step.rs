//! One-step inductive harnesses: arbitrary INV state (concrete layout, symbolic contents)
//! -> one public call with symbolic arguments -> postconditions of C01..C05 + INV.
use crate::common::*;
use crate::shapes::*;

const UNW: u32 = (2 * MAXB + 2) as u32;

macro_rules! harness {
    ($name:ident, $body:ident, $shape:expr) => {
        #[kani::proof]
        #[kani::unwind(34)]
        fn $name() {
            $body($shape)
        }
    };
}

// ------------------------------------------------------------------------------ insert
fn st_insert(sh: Shape) {
    let mut m = build_kv(sh, 1);
    assume_distinct(&m);
    let q: u8 = kani::any();
    let k: u8 = kani::any();
    let v: u8 = kani::any();
    let pre_q = ref_get(&m, &q);
    let sk = scan(&m, &k);
    let pre_k = sk.val;
    let k_in_old = sk.in_old;
    let n = m.len();
    let cap = m.capacity();
    let l0 = old_len(&m);
    let was_split = is_split(&m);
    let main_len0 = m.verif_parts().0.len();
    assert!(n == sk.nfull_main + sk.nfull_old, "[C01] len() differs from the number of stored elements");
    reset_counters();

    let r = m.insert(k, v);

    // C01: return value, length, contents (extensionally, via the witness q)
    assert!(r == pre_k, "[C01] insert returned a wrong previous value");
    assert!(m.len() == n + if pre_k.is_none() { 1 } else { 0 }, "[C01] len() wrong after insert");
    let sq = scan(&m, &q);
    assert!(sq.val == if q == k { Some(v) } else { pre_q }, "[C01] contents wrong after insert");
    // C02: bounded work
    let moved = acct::removes();
    assert!(hashes() <= 10, "[C02] more than R+2 = 10 hash computations in one insert");
    assert!(moved <= 8, "[C02] more than R = 8 elements moved in one insert");
    assert!(acct::allocs() <= 1, "[C02] more than one table allocation in one insert");
    assert!(acct::rehash() == 0, "[C02] the dependency rehashed elements (all-at-once resize) during insert");
    if pre_k.is_some() && !k_in_old {
        assert!(moved == 0 && acct::allocs() == 0 && hashes() == 1, "[C02] in-place update did resize work");
    }
    // C03: progress of a pending resize
    let l1 = old_len(&m);
    if pre_k.is_none() {
        let pending = if was_split { l0 } else if acct::allocs() == 1 { main_len0 } else { 0 };
        let step = if pending < R_SPEC { pending } else { R_SPEC };
        assert!(l1 == pending - step, "[C03] a key-adding call did not move min(R, remaining) leftovers");
        post_freed_if_empty(&m);
        if l1 == 0 {
            assert!(acct::live() <= 1, "[C03] old table not deallocated once emptied");
        }
    }
    // C04: headroom
    assert!(m.capacity() >= cap || pre_k.is_some(), "[C04] capacity() decreased across a key-adding call");
    if pre_k.is_none() && cap > n {
        assert!(acct::allocs() == 0, "[C04] inserting a fresh key with capacity() > len() allocated");
    }
    post_inv(&m, &sq);
    assert!(m.get(&q).copied() == sq.val, "[C01] get() disagrees with the stored contents after insert");
    kani::cover!(pre_k.is_none() && acct::allocs() == 1, "cls: insert grew the table");
    kani::cover!(pre_k.is_some() && k_in_old, "cls: overwrite of an old-table element");
    kani::cover!(pre_k.is_some() && !k_in_old, "cls: overwrite of a main-table element");
    kani::cover!(was_split && l1 == 0 && l0 > 0, "cls: this call finished the resize");
    kani::cover!(was_split && l1 > 0, "cls: resize still pending after the call");
    kani::cover!(true, "reach: end of harness");
    core::mem::forget(m);
}

harness!(st_insert__u0, st_insert, U0);
harness!(st_insert__u8_3, st_insert, U8_3);
harness!(st_insert__u8_3t, st_insert, U8_3T);
harness!(st_insert__u4f, st_insert, U4F);
harness!(st_insert__u4ft, st_insert, U4FT);
harness!(st_insert__u8f, st_insert, U8F);
harness!(st_insert__s8_4a, st_insert, S8_4A);
harness!(st_insert__s8_8g0, st_insert, S8_8G0);
harness!(st_insert__s8_8g4, st_insert, S8_8G4);
harness!(st_insert__s8_e, st_insert, S8_E);
harness!(st_insert__s4f_e, st_insert, S4F_E);
harness!(st_insert__s16_8, st_insert, S16_8);

// ------------------------------------------------------------------------------ remove
fn st_remove(sh: Shape) {
    let mut m = build_kv(sh, 1);
    assume_distinct(&m);
    let q: u8 = kani::any();
    let k: u8 = kani::any();
    let pre_q = ref_get(&m, &q);
    let sk = scan(&m, &k);
    let pre_k = sk.val;
    let k_in_old = sk.in_old;
    let n = m.len();
    let l0 = old_len(&m);
    reset_counters();

    let r = m.remove(&k);

    assert!(r == pre_k, "[C01] remove returned a wrong value");
    assert!(m.len() == n - if pre_k.is_some() { 1 } else { 0 }, "[C01] len() wrong after remove");
    let sq = scan(&m, &q);
    assert!(sq.val == if q == k { None } else { pre_q }, "[C01] contents wrong after remove");
    assert!(hashes() == 1, "[C02] remove hashed more than the queried key");
    assert!(acct::allocs() == 0 && acct::rehash() == 0, "[C02] remove allocated or rehashed");
    assert!(acct::removes() == if pre_k.is_some() { 1 } else { 0 } && acct::inserts() == 0, "[C02] remove moved elements");
    assert!(old_len(&m) == l0 - if k_in_old { 1 } else { 0 }, "[C03] remove changed the leftovers unexpectedly");
    post_freed_if_empty(&m);
    post_inv(&m, &sq);
    kani::cover!(k_in_old, "cls: removed an old-table element");
    kani::cover!(k_in_old && !is_split(&m), "cls: removal emptied and freed the old table");
    kani::cover!(pre_k.is_some() && !k_in_old, "cls: removed a main-table element");
    kani::cover!(true, "reach: end of harness");
    core::mem::forget(m);
}
harness!(st_remove__u8_3, st_remove, U8_3);
harness!(st_remove__s8_4a, st_remove, S8_4A);
harness!(st_remove__s8_4one, st_remove, S8_4ONE);
harness!(st_remove__s8_8g0, st_remove, S8_8G0);
harness!(st_remove__s8_8g4, st_remove, S8_8G4);
harness!(st_remove__s8_e, st_remove, S8_E);

// ------------------------------------------------- raw entry: replace_entry_with(..)
fn st_raw_replace_with(sh: Shape) {
    let mut m = build_kv(sh, 1);
    assume_distinct(&m);
    let q: u8 = kani::any();
    let k: u8 = kani::any();
    let ret: Option<u8> = kani::any();
    let pre_q = ref_get(&m, &q);
    let sk = scan(&m, &k);
    let pre_k = sk.val;
    let n = m.len();
    let l0 = old_len(&m);
    reset_counters();
    match m.raw_entry_mut().from_key(&k) {
        RawEntryMut::Occupied(e) => {
            assert!(pre_k.is_some(), "[C12] raw entry Occupied for an absent key");
            match e.replace_entry_with(|kk, vv| {
                assert!(*kk == k && Some(vv) == pre_k, "[C12] replace_entry_with closure got a wrong element");
                ret
            }) {
                RawEntryMut::Vacant(_) => assert!(ret.is_none(), "[C12] replace_entry_with(Some) returned a vacant entry"),
                RawEntryMut::Occupied(e2) => {
                    assert!(ret.is_some(), "[C12] replace_entry_with(None) left the entry occupied");
                    assert!(*e2.key() == k && Some(*e2.get()) == ret, "[C12] occupied handle after replace_entry_with designates a wrong element");
                }
            }
            assert!(m.len() == n - if ret.is_none() { 1 } else { 0 }, "[C01] len() wrong after replace_entry_with");
        }
        RawEntryMut::Vacant(_) => {
            assert!(pre_k.is_none(), "[C12] raw entry Vacant for a present key");
        }
    }
    let sq = scan(&m, &q);
    assert!(sq.val == if q == k && pre_k.is_some() { ret } else { pre_q }, "[C01] contents wrong after replace_entry_with");
    assert!(hashes() == 1 && acct::allocs() == 0 && acct::inserts() == 0, "[C02] replace_entry_with hashed more than the queried key, allocated or moved elements");
    assert!(old_len(&m) == l0 - if sk.in_old && pre_k.is_some() && ret.is_none() { 1 } else { 0 }, "[C03] replace_entry_with changed the leftovers unexpectedly");
    post_inv(&m, &sq);
    kani::cover!(pre_k.is_some() && sk.in_old && ret.is_none(), "cls: removed an old-table element through replace_entry_with");
    kani::cover!(pre_k.is_some() && sk.in_old && ret.is_some(), "cls: replaced the value of an old-table element");
    kani::cover!(pre_k.is_some() && !sk.in_old, "cls: main-table element");
    kani::cover!(true, "reach: end of harness");
    core::mem::forget(m);
}
harness!(st_raw_replace_with__s8_8g0, st_raw_replace_with, S8_8G0);
harness!(st_raw_replace_with__s8_8g4, st_raw_replace_with, S8_8G4);
harness!(st_raw_replace_with__s8_4a, st_raw_replace_with, S8_4A);
harness!(st_raw_replace_with__s8_4one, st_raw_replace_with, S8_4ONE);
