//! C13: HashSet behaves as a mathematical set. Element operations are thin wrappers over the
//! map / raw-entry API and are decided per operation from arbitrary INV states; the lazy set
//! algebra is decided on pairs of sets in independent INV states by iterating each result to
//! exhaustion: the witness element q must be yielded exactly [definition(q)] times.
use crate::common::*;
use crate::shapes::*;

type Z = HashSet<u8, S>;

fn set_of(sh: Shape, id: u8) -> Z {
    let m = build::<u8, ()>(sh, id);
    assume_distinct(&m);
    Z::verif_from_map(m)
}
/// A set with the given layout whose elements are *concrete*: the element stored in bucket i is
/// i. Used for the lazy set algebra only, where a symbolic membership answer makes the position
/// of the underlying iterators symbolic and CBMC does not finish; shapes are chosen so that
/// main-table and old-table positions of one set are disjoint (elements pairwise different).
fn set_concrete(sh: Shape, id: u8) -> Z {
    let hf = |kv: &(u8, ())| hash_of(id, &kv.0);
    let main: HB<(u8, ())> = HB::verif_build(sh.mb, sh.mfull, sh.mdel, |i| (i as u8, ()), hf);
    let old = sh.old.map(|o| {
        assert!(o.full & sh.mfull == 0, "[harness] overlapping positions would duplicate an element");
        let t: HB<(u8, ())> = HB::verif_build(o.b, o.full, o.del, |i| (i as u8, ()), hf);
        let it = unsafe { t.verif_iter_at(o.g) };
        (t, it)
    });
    Z::verif_from_map(HashMap::verif_from_parts(S { id }, main, old))
}
fn has(s: &Z, q: &u8) -> bool {
    ref_get(s.verif_map(), q).is_some()
}

macro_rules! harness {
    ($name:ident, $body:ident, $shape:expr, $j:expr) => {
        #[kani::proof]
        #[kani::unwind(34)]
        fn $name() {
            $body($shape, $j)
        }
    };
}

#[derive(Clone, Copy, PartialEq)]
enum El {
    Insert,
    ReplacePresent,
    Remove,
    Take,
    Get,
    GetOrInsert,
    GetOrInsertWith,
    GetOrInsertOwned,
    Retain,
    Clear,
    Extend1,
}

fn se_elem(sh: Shape, op: El) {
    let mut s = set_of(sh, 1);
    let q: u8 = kani::any();
    let x: u8 = kani::any();
    let in_q = has(&s, &q);
    let in_x = has(&s, &x);
    let n = s.len();
    let l0 = old_len(s.verif_map());
    let main_len0 = s.verif_map().verif_parts().0.len();
    reset_counters();
    let mut want_x = in_x;
    let mut wipe = false;
    assert!(s.contains(&x) == in_x, "[C13] contains() wrong");
    match op {
        El::Insert => {
            assert!(s.insert(x) == !in_x, "[C13] insert() returned a wrong flag");
            want_x = true;
        }
        El::ReplacePresent => {
            // replace() goes through the `Entry` enum; only its occupied arm is tractable (h_entry.rs)
            kani::assume(in_x);
            assert!(s.replace(x) == Some(x), "[C13] replace() returned a wrong element");
        }
        El::Remove => {
            assert!(s.remove(&x) == in_x, "[C13] remove() returned a wrong flag");
            want_x = false;
        }
        El::Take => {
            assert!(s.take(&x) == if in_x { Some(x) } else { None }, "[C13] take() returned a wrong element");
            want_x = false;
        }
        El::Get => {
            assert!(s.get(&x).copied() == if in_x { Some(x) } else { None }, "[C13] get() wrong");
        }
        El::GetOrInsert => {
            assert!(*s.get_or_insert(x) == x, "[C13] get_or_insert() returned a wrong element");
            want_x = true;
        }
        El::GetOrInsertWith => {
            let mut called = false;
            assert!(
                *s.get_or_insert_with(&x, |v| {
                    called = true;
                    *v
                }) == x,
                "[C13] get_or_insert_with() returned a wrong element"
            );
            assert!(called == !in_x, "[C13] get_or_insert_with() called the closure for a present element (or not for an absent one)");
            want_x = true;
        }
        El::GetOrInsertOwned => {
            assert!(*s.get_or_insert_owned(&x) == x, "[C13] get_or_insert_owned() returned a wrong element");
            want_x = true;
        }
        El::Retain => {
            let mask: u16 = kani::any();
            let mut calls = 0usize;
            let mut keep_x = false;
            s.retain(|v| {
                let keep = (mask >> (calls & 15)) & 1 == 1;
                calls += 1;
                if *v == x {
                    keep_x = keep;
                }
                keep
            });
            assert!(calls == n, "[C13] retain() did not visit every element exactly once");
            want_x = in_x && keep_x;
            // q's fate is not tracked here: use x as the only witness
            assert!(has(&s, &x) == want_x && s.contains(&x) == want_x, "[C13] retain() kept/dropped the wrong element");
            let sq = scan(s.verif_map(), &x);
            post_inv(s.verif_map(), &sq);
            kani::cover!(true, "reach: end of harness");
            core::mem::forget(s);
            return;
        }
        El::Clear => {
            s.clear();
            wipe = true;
        }
        El::Extend1 => {
            s.extend([x]);
            want_x = true;
        }
    }
    let sq = scan(s.verif_map(), &q);
    let want_q = if wipe { false } else if q == x { want_x } else { in_q };
    assert!(sq.val.is_some() == want_q, "[C13] the set's contents differ from the reference set's");
    assert!(s.contains(&q) == want_q, "[C13] contains() disagrees with the reference set after the operation");
    let dn = if wipe { 0 } else { n + if want_x && !in_x { 1 } else { 0 } - if !want_x && in_x { 1 } else { 0 } };
    assert!(s.len() == dn && s.is_empty() == (dn == 0), "[C13] len()/is_empty() differ from the reference set's");
    if want_x && !in_x && !matches!(op, El::Extend1) {
        // one element added by a single call (extend reserves first and may move everything)
        post_progress(s.verif_map(), l0, main_len0);
    }
    post_inv(s.verif_map(), &sq);
    kani::cover!(in_x, "cls: element present");
    kani::cover!(!in_x, "cls: element absent");
    kani::cover!(true, "reach: end of harness");
    core::mem::forget(s);
}
harness!(se_insert__s8_4a, se_elem, S8_4A, El::Insert);
harness!(se_insert__u4f, se_elem, U4F, El::Insert);
harness!(se_insert__s8_4one, se_elem, S8_4ONE, El::Insert);
harness!(se_insert__s8_8g4, se_elem, S8_8G4, El::Insert);
// se_replace: HashSet::replace goes through the `Entry` enum, which CBMC cannot digest (timeout); see DESIGN.md
harness!(se_remove__s8_8g0, se_elem, S8_8G0, El::Remove);
harness!(se_remove__s8m0_4a, se_elem, S8M0_4A, El::Remove);
harness!(se_take__s8_4one, se_elem, S8_4ONE, El::Take);
harness!(se_take__s8m0_4a, se_elem, S8M0_4A, El::Take);
harness!(se_get__s8_8g4, se_elem, S8_8G4, El::Get);
harness!(se_get_or_insert__u4f, se_elem, U4F, El::GetOrInsert);
harness!(se_get_or_insert__s8_4a, se_elem, S8_4A, El::GetOrInsert);
harness!(se_get_or_insert__s8m0_4a, se_elem, S8M0_4A, El::GetOrInsert);
harness!(se_get_or_insert_with__s8m0_4a, se_elem, S8M0_4A, El::GetOrInsertWith);
harness!(se_insert__s8m0_4a, se_elem, S8M0_4A, El::Insert);
harness!(se_get__s8m0_4a, se_elem, S8M0_4A, El::Get);
harness!(se_get_or_insert_with__s8_8g4, se_elem, S8_8G4, El::GetOrInsertWith);
harness!(se_get_or_insert_owned__u4f, se_elem, U4F, El::GetOrInsertOwned);
harness!(se_retain__s8_8g0, se_elem, S8_8G0, El::Retain);
harness!(se_clear__s8_8g4, se_elem, S8_8G4, El::Clear);
harness!(se_clear__s8m0_4a, se_elem, S8M0_4A, El::Clear);
harness!(se_extend1__s8_4a, se_elem, S8_4A, El::Extend1);

/// insert / replace-free element operations on a set with CONCRETE contents (element in bucket i
/// is i) and a concrete argument: cheap even for implementations whose symbolic version CBMC
/// cannot digest; complements the symbolic se_elem harnesses above.
fn se_concrete(sh: Shape, x: u8) {
    let mut s = set_concrete(sh, 1);
    let q: u8 = kani::any();
    let in_q = has(&s, &q);
    let in_x = has(&s, &x);
    let n = s.len();
    assert!(s.contains(&x) == in_x, "[C13] contains() wrong");
    assert!(s.insert(x) == !in_x, "[C13] insert() returned a wrong flag");
    assert!(s.len() == n + if in_x { 0 } else { 1 }, "[C13] len() wrong after insert()");
    assert!(!s.insert(x), "[C13] a second insert() of the same element reported it as new");
    let sq = scan(s.verif_map(), &q);
    assert!(sq.val.is_some() == (in_q || q == x), "[C13] the set's contents differ from the reference set's after insert()");
    assert!(s.take(&x) == Some(x) && !s.contains(&x), "[C13] take() after insert() did not return the element");
    assert!(s.len() == n - if in_x { 1 } else { 0 }, "[C13] len() wrong after take()");
    let sq = scan(s.verif_map(), &q);
    post_inv(s.verif_map(), &sq);
    kani::cover!(true, "reach: end of harness");
    core::mem::forget(s);
}
harness!(se_concrete__ka_old, se_concrete, K_A, 2);
harness!(se_concrete__ka_main, se_concrete, K_A, 0);
harness!(se_concrete__ka_absent, se_concrete, K_A, 9);
harness!(se_concrete__kd_old, se_concrete, K_D, 6);

/// drain / iter / into_iter of a set
fn se_iter(sh: Shape, kind: u8) {
    let mut s = set_of(sh, 1);
    let q: u8 = kani::any();
    let in_q = has(&s, &q);
    let n = s.len();
    let mut seen = 0usize;
    let mut steps = 0usize;
    if kind == 0 {
        let mut it = s.iter();
        while steps < n + 1 {
            let rem = n - if steps < n { steps } else { n };
            assert!(it.len() == rem && it.size_hint() == (rem, Some(rem)), "[C08] HashSet::iter len()/size_hint() is not exact");
            if let Some(v) = it.next() {
                if *v == q {
                    seen += 1;
                }
            }
            steps += 1;
        }
        assert!(it.next().is_none(), "[C08] HashSet::iter not fused");
        core::mem::forget(s);
    } else if kind == 1 {
        {
            let mut it = s.drain();
            while steps < n + 1 {
                let rem = n - if steps < n { steps } else { n };
                assert!(it.len() == rem && it.size_hint() == (rem, Some(rem)), "[C08] HashSet::drain len()/size_hint() is not exact");
                if let Some(v) = it.next() {
                    if v == q {
                        seen += 1;
                    }
                }
                steps += 1;
            }
        }
        assert!(s.len() == 0 && !s.contains(&q), "[C08] set not empty after drain");
        core::mem::forget(s);
    } else {
        let mut it = s.into_iter();
        while steps < n + 1 {
            let rem = n - if steps < n { steps } else { n };
            assert!(it.len() == rem && it.size_hint() == (rem, Some(rem)), "[C08] HashSet::into_iter len()/size_hint() is not exact");
            if let Some(v) = it.next() {
                if v == q {
                    seen += 1;
                }
            }
            steps += 1;
        }
    }
    assert!(seen == if in_q { 1 } else { 0 }, "[C08] a set iterator does not yield each element exactly once");
    kani::cover!(true, "reach: end of harness");
}
harness!(se_iter__s8_8g4, se_iter, S8_8G4, 0);
harness!(se_drain__s8_4a, se_iter, S8_4A, 1);
harness!(se_into_iter__s8_8g4, se_iter, S8_8G4, 2);

// ------------------------------------------------------------------------------ algebra
macro_rules! harness2 {
    ($name:ident, $body:ident, $a:expr, $b:expr, $op:expr) => {
        #[kani::proof]
        #[kani::unwind(34)]
        fn $name() {
            $body($a, $b, $op)
        }
    };
}
#[derive(Clone, Copy, PartialEq)]
enum Alg {
    Union,
    Intersection,
    Difference,
    SymDiff,
    Preds,
    Ops,
}

/// number of elements of `a` satisfying (in b) == `want_in_b`
fn count_rel(a: &Z, b: &Z, want_in_b: bool) -> usize {
    let (main, old) = a.verif_map().verif_parts();
    let mut n = 0;
    let mut i = 0;
    while i < main.verif_nslots() {
        if let Some(kv) = main.verif_slot(i) {
            if has(b, &kv.0) == want_in_b {
                n += 1;
            }
        }
        i += 1;
    }
    if let Some((ot, _)) = old {
        let mut i = 0;
        while i < ot.verif_nslots() {
            if let Some(kv) = ot.verif_slot(i) {
                if has(b, &kv.0) == want_in_b {
                    n += 1;
                }
            }
            i += 1;
        }
    }
    n
}

fn se_algebra(ash: Shape, bsh: Shape, op: Alg) {
    // predicates: symbolic contents; lazy iterators and operator forms: concrete contents
    let (a, b) = if op == Alg::Preds { (set_of(ash, 1), set_of(bsh, 2)) } else { (set_concrete(ash, 1), set_concrete(bsh, 2)) };
    let q: u8 = kani::any();
    let ia = has(&a, &q);
    let ib = has(&b, &q);
    let na = a.len();
    let nb = b.len();
    let bound = na + nb;
    let mut seen = 0usize;
    let mut total = 0usize;
    match op {
        Alg::Union => {
            let mut it = a.union(&b);
            let mut s = 0;
            while s < bound + 1 {
                if let Some(v) = it.next() {
                    total += 1;
                    if *v == q {
                        seen += 1;
                    }
                }
                s += 1;
            }
            assert!(it.next().is_none(), "[C13] union() not fused / yields too many elements");
            assert!(seen == if ia || ib { 1 } else { 0 }, "[C13] union() does not yield exactly the elements of a or b, each once");
            assert!(total == na + count_rel(&b, &a, false), "[C13] union() has a wrong number of elements");
        }
        Alg::Intersection => {
            let mut it = a.intersection(&b);
            let mut s = 0;
            while s < bound + 1 {
                if let Some(v) = it.next() {
                    total += 1;
                    if *v == q {
                        seen += 1;
                    }
                }
                s += 1;
            }
            assert!(it.next().is_none(), "[C13] intersection() not fused / yields too many elements");
            assert!(seen == if ia && ib { 1 } else { 0 }, "[C13] intersection() does not yield exactly the common elements, each once");
            assert!(total == count_rel(&a, &b, true), "[C13] intersection() has a wrong number of elements");
        }
        Alg::Difference => {
            let mut it = a.difference(&b);
            let mut s = 0;
            while s < bound + 1 {
                if let Some(v) = it.next() {
                    total += 1;
                    if *v == q {
                        seen += 1;
                    }
                }
                s += 1;
            }
            assert!(it.next().is_none(), "[C13] difference() not fused / yields too many elements");
            assert!(seen == if ia && !ib { 1 } else { 0 }, "[C13] difference() does not yield exactly the elements of a not in b, each once");
            assert!(total == count_rel(&a, &b, false), "[C13] difference() has a wrong number of elements");
        }
        Alg::SymDiff => {
            let mut it = a.symmetric_difference(&b);
            let mut s = 0;
            while s < bound + 1 {
                if let Some(v) = it.next() {
                    total += 1;
                    if *v == q {
                        seen += 1;
                    }
                }
                s += 1;
            }
            assert!(it.next().is_none(), "[C13] symmetric_difference() not fused / yields too many elements");
            assert!(seen == if ia != ib { 1 } else { 0 }, "[C13] symmetric_difference() does not yield exactly the elements in one set only, each once");
            assert!(total == count_rel(&a, &b, false) + count_rel(&b, &a, false), "[C13] symmetric_difference() has a wrong number of elements");
        }
        Alg::Preds => {
            let sub = count_rel(&a, &b, false) == 0;
            let sup = count_rel(&b, &a, false) == 0;
            let dis = count_rel(&a, &b, true) == 0;
            assert!(a.is_subset(&b) == sub, "[C13] is_subset() differs from the definition");
            assert!(a.is_superset(&b) == sup, "[C13] is_superset() differs from the definition");
            assert!(a.is_disjoint(&b) == dis, "[C13] is_disjoint() differs from the definition");
            assert!((a == b) == (sub && sup), "[C13] == differs from the definition");
            assert!((b == a) == (sub && sup), "[C13] == is not symmetric");
            kani::cover!(sub && sup && na > 0, "cls: equal non-empty sets");
            kani::cover!(sub && !sup, "cls: proper subset");
            kani::cover!(dis && na > 0 && nb > 0, "cls: disjoint non-empty sets");
        }
        Alg::Ops => {
            // operator forms build new sets (S: Default): compare them with the definitions
            let u = &a | &b;
            let i = &a & &b;
            let x = &a ^ &b;
            let d = &a - &b;
            assert!(u.contains(&q) == (ia || ib) && u.len() == na + count_rel(&b, &a, false), "[C13] a | b differs from the union");
            assert!(i.contains(&q) == (ia && ib) && i.len() == count_rel(&a, &b, true), "[C13] a & b differs from the intersection");
            assert!(x.contains(&q) == (ia != ib) && x.len() == count_rel(&a, &b, false) + count_rel(&b, &a, false), "[C13] a ^ b differs from the symmetric difference");
            assert!(d.contains(&q) == (ia && !ib) && d.len() == count_rel(&a, &b, false), "[C13] a - b differs from the difference");
            core::mem::forget((u, i, x, d));
        }
    }
    kani::cover!(ia && ib, "cls: witness in both sets");
    kani::cover!(is_split(a.verif_map()) && is_split(b.verif_map()), "cls: both operands mid-resize");
    kani::cover!(true, "reach: end of harness");
    core::mem::forget(a);
    core::mem::forget(b);
}
/// symbolic-content operand shapes (predicates): 2 + 1 and 1 + 2 elements, both mid-resize; 2 unsplit
pub const T_A: Shape = split(8, 0b01, 0, 4, 0b0100, 0, 0);
pub const T_B: Shape = split(8, 0b10, 0, 4, 0b0011, 0, 0);
pub const T_C: Shape = unsplit(4, 0b0110, 0);
harness2!(se_preds__a_b, se_algebra, T_A, T_B, Alg::Preds);
harness2!(se_preds__b_a, se_algebra, T_B, T_A, Alg::Preds);
harness2!(se_preds__c_a, se_algebra, T_C, T_A, Alg::Preds);
/// concrete-content operand shapes (element in bucket i is i):
///   K_A = {0,1 | 2,3}   K_B = {2,5 | 0,1}   K_C = {1,2,6} unsplit   K_D = {4 | 5,6,7} cursor advanced   K_E = {} split-empty
pub const K_A: Shape = split(8, 0b0000_0011, 0, 4, 0b1100, 0, 0);
pub const K_B: Shape = split(8, 0b0010_0100, 0, 4, 0b0011, 0, 0);
pub const K_C: Shape = unsplit(8, 0b0100_0110, 0b0000_1000);
pub const K_D: Shape = split(8, 0b0001_0000, 0, 8, 0b1110_0000, 0b0000_0010, 4);
pub const K_E: Shape = split(8, 0, 0, 4, 0, 0b0010, 0);
// Limitation (measured): when the operand that the lazy iterator *walks* is mid-resize and the
// other operand is non-empty, CBMC does not finish (> 25 min, also with concrete contents): the
// element reference comes from one of two tables and the membership answer stops being a
// constant for symbolic execution. Decided pairs: walked operand unsplit (other in any phase),
// or other operand empty (walked operand in any phase).
pub const K_F: Shape = unsplit(8, 0b0011_0001, 0);
harness2!(se_union__c_f, se_algebra, K_C, K_F, Alg::Union);
harness2!(se_union__f_c, se_algebra, K_F, K_C, Alg::Union);
harness2!(se_union__e_c, se_algebra, K_E, K_C, Alg::Union);
harness2!(se_union__a_e, se_algebra, K_A, K_E, Alg::Union);
harness2!(se_intersection__c_a, se_algebra, K_C, K_A, Alg::Intersection);
harness2!(se_intersection__a_c, se_algebra, K_A, K_C, Alg::Intersection);
harness2!(se_intersection__d_c, se_algebra, K_D, K_C, Alg::Intersection);
harness2!(se_intersection__c_f, se_algebra, K_C, K_F, Alg::Intersection);
harness2!(se_difference__c_a, se_algebra, K_C, K_A, Alg::Difference);
harness2!(se_difference__c_d, se_algebra, K_C, K_D, Alg::Difference);
harness2!(se_difference__a_e, se_algebra, K_A, K_E, Alg::Difference);
harness2!(se_difference__d_e, se_algebra, K_D, K_E, Alg::Difference);
harness2!(se_symdiff__c_f, se_algebra, K_C, K_F, Alg::SymDiff);
harness2!(se_ops__e_c, se_algebra, K_E, K_C, Alg::Ops);

const END: usize = usize::MAX;
/// HashSet::drain_filter: predicate = answer mask over the call index (concrete), the filter is
/// driven `j` steps and then dropped (END = driven to exhaustion).
fn se_drain_filter(sh: Shape, p: (u16, usize)) {
    let (pm, j) = p;
    let mut s = set_of(sh, 1);
    let q: u8 = kani::any();
    let in_q = has(&s, &q);
    let n = s.len();
    let l0 = old_len(s.verif_map());
    let j = if j == END { n + 1 } else { j };
    let mut calls = 0usize;
    let mut calls_q = 0usize;
    let mut hit_q = false;
    let mut yielded = 0usize;
    let mut yielded_q = 0usize;
    {
        let mut df = s.drain_filter(|x| {
            let hit = (pm >> (calls & 15)) & 1 == 1;
            calls += 1;
            if *x == q {
                calls_q += 1;
                hit_q = hit;
            }
            hit
        });
        let mut steps = 0usize;
        while steps < j {
            if let Some(x) = df.next() {
                if x == q {
                    yielded_q += 1;
                }
                yielded += 1;
                assert!(yielded <= n, "[C09] HashSet::drain_filter yielded more elements than the set held");
            }
            steps += 1;
        }
    }
    assert!(yielded_q <= 1 && calls_q == if in_q { 1 } else { 0 } && calls == n, "[C09] HashSet::drain_filter did not call the predicate exactly once per element");
    assert!(yielded_q == 0 || hit_q, "[C09] HashSet::drain_filter yielded an element the predicate rejected");
    let sq = scan(s.verif_map(), &q);
    assert!(sq.val.is_some() == (in_q && !hit_q), "[C09] after HashSet::drain_filter the set is not exactly the rejected elements");
    assert!(s.contains(&q) == (in_q && !hit_q), "[C13] contains() disagrees after drain_filter");
    assert!(s.len() == n - (pm & ((1u16 << n) - 1)).count_ones() as usize, "[C09] len() after HashSet::drain_filter is not the number of rejected elements");
    post_freed_if_empty(s.verif_map(), l0);
    post_inv(s.verif_map(), &sq);
    kani::cover!(l0 > 0 && !is_split(s.verif_map()), "cls: drain_filter emptied and freed the old table");
    kani::cover!(in_q && yielded_q == 1, "cls: witness element yielded");
    kani::cover!(true, "reach: end of harness");
    core::mem::forget(s);
}
harness!(se_drain_filter__s8_4a_m0110_end, se_drain_filter, S8_4A, (0b0110, END));
harness!(se_drain_filter__s8_4a_m1100_j1, se_drain_filter, S8_4A, (0b1100, 1));
harness!(se_drain_filter__s8_4a_m1011_j0, se_drain_filter, S8_4A, (0b1011, 0));
harness!(se_drain_filter__s8m0_4a_m10_j0, se_drain_filter, S8M0_4A, (0b10, 0));
