//! C08: every iterator yields each live element exactly once, with exact length at every
//! step, is fused, clones independently; drain leaves an empty usable map.
//! The witness key `q` is a solver variable: "q is yielded exactly [q present] times, with
//! the value the reference map holds" for all q is multiset equality.
use crate::common::*;
use crate::shapes::*;

macro_rules! harness {
    ($name:ident, $body:ident, $shape:expr) => {
        #[kani::proof]
        #[kani::unwind(34)]
        fn $name() {
            $body($shape)
        }
    };
    ($name:ident, $body:ident, $shape:expr, $j:expr) => {
        #[kani::proof]
        #[kani::unwind(34)]
        fn $name() {
            $body($shape, $j)
        }
    };
}
/// "end": consume completely and call next() once more
const END: usize = usize::MAX;
fn steps_for(j: usize, n: usize) -> usize {
    if j == END {
        n + 1
    } else {
        j
    }
}

fn it_iter(sh: Shape, cp: usize) {
    let m = build_kv(sh, 1);
    assume_distinct(&m);
    let q: u8 = kani::any();
    let pre_q = ref_get(&m, &q);
    let n = m.len();
    // the step after which the iterator is cloned is concrete (one harness per value)
    let cp = if cp > n { n } else { cp };
    let mut it = m.iter();
    let mut seen = 0usize;
    let mut steps = 0usize;
    while steps < cp {
        assert!(it.len() == n - steps, "[C08] len() of the iterator is not the exact number still to come");
        match it.next() {
            Some((k, v)) => {
                if *k == q {
                    seen += 1;
                    assert!(Some(*v) == pre_q, "[C08] iterator yields a value the map does not hold for that key");
                }
            }
            None => assert!(false, "[C08] iterator ended before yielding every element"),
        }
        steps += 1;
    }
    let mut c = it.clone();
    let mut cseen = seen;
    while steps < n {
        assert!(it.len() == n - steps && c.len() == n - steps, "[C08] len() of the iterator (or its clone) is not the exact number still to come");
        assert!(it.size_hint() == (n - steps, Some(n - steps)), "[C08] size_hint() of the iterator is not exact");
        match (it.next(), c.next()) {
            (Some((k, v)), Some((k2, v2))) => {
                if *k == q {
                    seen += 1;
                    assert!(Some(*v) == pre_q, "[C08] iterator yields a value the map does not hold for that key");
                }
                if *k2 == q {
                    cseen += 1;
                    assert!(Some(*v2) == pre_q, "[C08] cloned iterator yields a wrong value");
                }
            }
            _ => assert!(false, "[C08] iterator (or its clone) ended before yielding every element"),
        }
        steps += 1;
    }
    assert!(it.len() == 0 && it.size_hint() == (0, Some(0)), "[C08] exhausted iterator reports a non-zero length");
    assert!(it.next().is_none() && it.next().is_none(), "[C08] iterator is not fused");
    assert!(c.next().is_none() && c.next().is_none(), "[C08] cloned iterator is not fused / yields extra elements");
    let want = if pre_q.is_some() { 1 } else { 0 };
    assert!(seen == want, "[C08] iter() does not yield each element exactly once");
    assert!(cseen == want, "[C08] a cloned iterator does not continue with exactly the remaining elements");
    kani::cover!(is_split(&m) && n > 0, "cls: iterated a split map");
    kani::cover!(true, "reach: end of harness");
    core::mem::forget(m);
}
harness!(it_iter__u0_c0, it_iter, U0, 0);
harness!(it_iter__u8_3t_c1, it_iter, U8_3T, 1);
harness!(it_iter__s8_4a_c0, it_iter, S8_4A, 0);
harness!(it_iter__s8_4a_c3, it_iter, S8_4A, 3);
harness!(it_iter__s8_8g4_c1, it_iter, S8_8G4, 1);
harness!(it_iter__s8_8g4_c2, it_iter, S8_8G4, 2);
harness!(it_iter__s8_8g4_c9, it_iter, S8_8G4, 9);
harness!(it_iter__s8_e_c1, it_iter, S8_E, 1);
harness!(it_iter__s16_8_c4, it_iter, S16_8, 4);
harness!(it_iter__s8m0_4a_c1, it_iter, S8M0_4A, 1);

fn it_keys_values(sh: Shape) {
    let m = build_kv(sh, 1);
    assume_distinct(&m);
    let q: u8 = kani::any();
    let pre_q = ref_get(&m, &q);
    let n = m.len();
    let mut ks = m.keys();
    let mut vs = m.values();
    // clones taken at the start are independent: still complete after the originals are exhausted
    let kc = ks.clone();
    let vc = vs.clone();
    let mut steps = 0usize;
    let mut seen = 0usize;
    loop {
        assert!(ks.len() == n - steps && vs.len() == n - steps, "[C08] keys()/values() length is not exact");
        assert!(ks.size_hint() == (n - steps, Some(n - steps)) && vs.size_hint() == (n - steps, Some(n - steps)), "[C08] keys()/values() size_hint() is not exact");
        match (ks.next(), vs.next()) {
            (Some(k), Some(v)) => {
                if *k == q {
                    seen += 1;
                    assert!(Some(*v) == pre_q, "[C08] keys() and values() do not enumerate in the same order");
                }
                steps += 1;
                assert!(steps <= n, "[C08] keys()/values() yield too many elements");
            }
            (None, None) => break,
            _ => assert!(false, "[C08] keys() and values() have different lengths"),
        }
    }
    assert!(steps == n && seen == if pre_q.is_some() { 1 } else { 0 }, "[C08] keys()/values() do not yield each element exactly once");
    assert!(ks.next().is_none() && vs.next().is_none(), "[C08] keys()/values() not fused");
    assert!(kc.len() == n && vc.len() == n && kc.size_hint() == (n, Some(n)) && vc.size_hint() == (n, Some(n)), "[C08] a clone of keys()/values() was advanced by the original");
    let mut kseen = 0usize;
    let mut kcount = 0usize;
    for k in kc {
        kcount += 1;
        assert!(kcount <= n, "[C08] cloned keys() yields too many elements");
        if *k == q {
            kseen += 1;
        }
    }
    assert!(kcount == n && kseen == if pre_q.is_some() { 1 } else { 0 }, "[C08] cloned keys() does not yield each key exactly once");
    let mut vcount = 0usize;
    for _ in vc {
        vcount += 1;
        assert!(vcount <= n, "[C08] cloned values() yields too many elements");
    }
    assert!(vcount == n, "[C08] cloned values() does not yield each value exactly once");
    kani::cover!(is_split(&m) && n > 0, "cls: iterated a split map");
    kani::cover!(true, "reach: end of harness");
    core::mem::forget(m);
}
harness!(it_keys_values__s8_4a, it_keys_values, S8_4A);
harness!(it_keys_values__s8_8g4, it_keys_values, S8_8G4);
harness!(it_keys_values__s8m0_4a, it_keys_values, S8M0_4A);

fn it_iter_mut(sh: Shape) {
    let mut m = build_kv(sh, 1);
    assume_distinct(&m);
    let q: u8 = kani::any();
    let c: u8 = kani::any();
    let pre_q = ref_get(&m, &q);
    let n = m.len();
    let mut steps = 0usize;
    let mut seen = 0usize;
    {
        let mut it = m.iter_mut();
        loop {
            assert!(it.len() == n - steps && it.size_hint() == (n - steps, Some(n - steps)), "[C08] iter_mut() len()/size_hint() is not exact");
            match it.next() {
                Some((k, v)) => {
                    if *k == q {
                        seen += 1;
                        assert!(Some(*v) == pre_q, "[C08] iter_mut() yields a wrong value");
                    }
                    *v ^= c;
                    steps += 1;
                    assert!(steps <= n, "[C08] iter_mut() yields too many elements");
                }
                None => break,
            }
        }
        assert!(it.next().is_none(), "[C08] iter_mut() not fused");
    }
    assert!(steps == n && seen == if pre_q.is_some() { 1 } else { 0 }, "[C08] iter_mut() does not yield each element exactly once");
    // C01: writes through iter_mut are seen by the reference map and by get()
    let sq = scan(&m, &q);
    assert!(sq.val == pre_q.map(|v| v ^ c), "[C01] a write through iter_mut() was lost or hit a wrong element");
    assert!(m.get(&q).copied() == sq.val, "[C01] get() disagrees with the contents after iter_mut() writes");
    post_inv(&m, &sq);
    kani::cover!(is_split(&m) && n > 0, "cls: iterated a split map");
    kani::cover!(true, "reach: end of harness");
    core::mem::forget(m);
}
harness!(it_iter_mut__s8_4a, it_iter_mut, S8_4A);
harness!(it_iter_mut__s8_8g4, it_iter_mut, S8_8G4);
harness!(it_iter_mut__u8_3t, it_iter_mut, U8_3T);
harness!(it_iter_mut__s8m0_4a, it_iter_mut, S8M0_4A);

fn it_values_mut(sh: Shape) {
    let mut m = build_kv(sh, 1);
    assume_distinct(&m);
    let q: u8 = kani::any();
    let c: u8 = kani::any();
    let pre_q = ref_get(&m, &q);
    let n = m.len();
    let mut steps = 0usize;
    {
        let mut it = m.values_mut();
        loop {
            assert!(it.len() == n - steps && it.size_hint() == (n - steps, Some(n - steps)), "[C08] values_mut() len()/size_hint() is not exact");
            match it.next() {
                Some(v) => {
                    *v ^= c;
                    steps += 1;
                    assert!(steps <= n, "[C08] values_mut() yields too many elements");
                }
                None => break,
            }
        }
    }
    assert!(steps == n, "[C08] values_mut() does not yield every element");
    let sq = scan(&m, &q);
    assert!(sq.val == pre_q.map(|v| v ^ c), "[C01] a write through values_mut() was lost, duplicated or hit a wrong element");
    post_inv(&m, &sq);
    kani::cover!(true, "reach: end of harness");
    core::mem::forget(m);
}
harness!(it_values_mut__s8_8g4, it_values_mut, S8_8G4);

fn it_into_iter(sh: Shape, j: usize) {
    let m = build_kv(sh, 1);
    assume_distinct(&m);
    let q: u8 = kani::any();
    let pre_q = ref_get(&m, &q);
    let n = m.len();
    // number of next() calls before the iterator is dropped: concrete, one harness per value
    let j = steps_for(j, n);
    let mut it = m.into_iter();
    let mut steps = 0usize;
    let mut seen = 0usize;
    while steps < j {
        let rem = n - if steps < n { steps } else { n };
        assert!(it.len() == rem && it.size_hint() == (rem, Some(rem)), "[C08] into_iter() len()/size_hint() is not exact");
        match it.next() {
            Some((k, v)) => {
                if k == q {
                    seen += 1;
                    assert!(Some(v) == pre_q, "[C08] into_iter() yields a wrong value");
                }
                assert!(steps < n, "[C08] into_iter() yields too many elements");
            }
            None => assert!(steps >= n, "[C08] into_iter() ended early"),
        }
        steps += 1;
    }
    assert!(seen <= 1, "[C08] into_iter() yields an element twice");
    if j >= n {
        assert!(seen == if pre_q.is_some() { 1 } else { 0 }, "[C08] into_iter() does not yield each element exactly once");
        assert!(it.next().is_none(), "[C08] into_iter() not fused");
    }
    // dropping the iterator at any prefix releases every table
    drop(it);
    assert!(acct::live() == 0, "[C06] table allocations remain after dropping a partly consumed into_iter()");
    kani::cover!(j < n, "cls: into_iter dropped early");
    kani::cover!(true, "reach: end of harness");
}
harness!(it_into_iter__s8_4a_j0, it_into_iter, S8_4A, 0);
harness!(it_into_iter__s8_4a_j1, it_into_iter, S8_4A, 1);
harness!(it_into_iter__s8_4a_j2, it_into_iter, S8_4A, 2);
harness!(it_into_iter__s8_4a_j3, it_into_iter, S8_4A, 3);
harness!(it_into_iter__s8_4a_end, it_into_iter, S8_4A, END);
harness!(it_into_iter__s8_8g4_j1, it_into_iter, S8_8G4, 1);
harness!(it_into_iter__s8m0_4a_j1, it_into_iter, S8M0_4A, 1);
harness!(it_into_iter__s8m0_4a_end, it_into_iter, S8M0_4A, END);
harness!(it_into_iter__s8_8g4_j2, it_into_iter, S8_8G4, 2);
harness!(it_into_iter__s8_8g4_end, it_into_iter, S8_8G4, END);
harness!(it_into_iter__u8_3t_j1, it_into_iter, U8_3T, 1);
harness!(it_into_iter__u8_3t_end, it_into_iter, U8_3T, END);
harness!(it_into_iter__s8_e_j2, it_into_iter, S8_E, 2);
harness!(it_into_iter__s8_e_end, it_into_iter, S8_E, END);
harness!(it_into_iter__s16_8_j5, it_into_iter, S16_8, 5);
harness!(it_into_iter__s16_8_end, it_into_iter, S16_8, END);

fn it_drain(sh: Shape, jf: (usize, bool)) {
    let mut m = build_kv(sh, 1);
    assume_distinct(&m);
    let q: u8 = kani::any();
    let pre_q = ref_get(&m, &q);
    let n = m.len();
    let j = steps_for(jf.0, n);
    let forget = jf.1;
    {
        let mut it = m.drain();
        let mut steps = 0usize;
        let mut seen = 0usize;
        while steps < j {
            let rem = n - if steps < n { steps } else { n };
            assert!(it.len() == rem && it.size_hint() == (rem, Some(rem)), "[C08] drain() len()/size_hint() is not exact");
            match it.next() {
                Some((k, v)) => {
                    if k == q {
                        seen += 1;
                        assert!(Some(v) == pre_q, "[C08] drain() yields a wrong value");
                    }
                    assert!(steps < n, "[C08] drain() yields too many elements");
                }
                None => assert!(steps >= n, "[C08] drain() ended early"),
            }
            steps += 1;
        }
        if j >= n {
            assert!(seen == if pre_q.is_some() { 1 } else { 0 }, "[C08] drain() does not yield each element exactly once");
            assert!(it.next().is_none(), "[C08] drain() not fused");
        }
        if forget {
            core::mem::forget(it);
        }
    }
    // consumed, dropped early or forgotten: the map is empty and fully usable
    assert!(m.len() == 0 && m.is_empty(), "[C08] map not empty after drain()");
    assert!(m.get(&q).is_none(), "[C08] an element is still found after drain()");
    let sq = scan(&m, &q);
    assert!(sq.count == 0, "[C08] an element is still stored after drain()");
    assert!(!is_split(&m), "[C03] drain() left an old table behind");
    post_inv(&m, &sq);
    if !forget {
        assert!(acct::live() <= 1, "[C03] more than one table alive after drain()");
    }
    let k: u8 = kani::any();
    let v: u8 = kani::any();
    assert!(m.insert(k, v).is_none(), "[C08] insert after drain() found a stale element");
    assert!(m.get(&k) == Some(&v) && m.len() == 1, "[C08] map not usable after drain()");
    kani::cover!(j < n && !forget, "cls: drain dropped early");
    kani::cover!(forget, "cls: drain forgotten");
    kani::cover!(true, "reach: end of harness");
    core::mem::forget(m);
}
harness!(it_drain__s8_4a_j0, it_drain, S8_4A, (0, false));
harness!(it_drain__s8_4a_j1, it_drain, S8_4A, (1, false));
harness!(it_drain__s8_4a_j3, it_drain, S8_4A, (3, false));
harness!(it_drain__s8_4a_end, it_drain, S8_4A, (END, false));
harness!(it_drain__s8_4a_j1f, it_drain, S8_4A, (1, true));
harness!(it_drain__s8_8g4_j1, it_drain, S8_8G4, (1, false));
harness!(it_drain__s8_8g4_j2f, it_drain, S8_8G4, (2, true));
harness!(it_drain__s8_8g4_end, it_drain, S8_8G4, (END, false));
harness!(it_drain__u8_3t_j1, it_drain, U8_3T, (1, false));
harness!(it_drain__u8_3t_endf, it_drain, U8_3T, (END, true));
harness!(it_drain__s8_e_j1, it_drain, S8_E, (1, false));
harness!(it_drain__s8_e_end, it_drain, S8_E, (END, false));
harness!(it_drain__s8m0_4a_j1, it_drain, S8M0_4A, (1, false));
