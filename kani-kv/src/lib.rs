//! KV-lite: the model's load-bearing claims about hashbrown's raw iterator, checked on the real
//! crate. Elements are u8 with the identity hash, so placement is concrete; which bucket is
//! removed, how far the cursor has advanced, and whether the element is put back are symbolic.
#![allow(non_snake_case, dead_code)]
#[cfg(kani)]
mod kv {
    use hashbrown::raw::{Bucket, RawIter, RawTable};

    fn h(x: &u8) -> u64 {
        // spread over the buckets of a 16-bucket table (h1 = low bits), distinct h2 not needed
        *x as u64
    }

    /// a 16-bucket table (two 8-wide groups) holding keys 0..n
    fn table(n: u8) -> RawTable<u8> {
        let mut t = RawTable::with_capacity(14);
        let mut i = 0;
        while i < n {
            t.insert(h(&i), i, h);
            i += 1;
        }
        t
    }

    /// F1: `reflect_remove(b)` *before* `remove(b)`, for any not-yet-yielded bucket b and any
    /// cursor position, leaves an iterator that yields exactly the remaining elements, each
    /// once, with an exact count — the premise of the model's cursor-agreement invariant I2.
    #[kani::proof]
    #[kani::unwind(20)]
    fn kv_reflect_remove_keeps_agreement() {
        const N: u8 = 10;
        let mut t = table(N);
        assert!(t.buckets() == 16);
        let mut it: RawIter<u8> = unsafe { t.iter() };
        // advance the cursor j steps, removing what it yields (what griddle's carry does)
        let j: u8 = kani::any();
        kani::assume(j < N);
        let mut seen = [false; N as usize];
        let mut s = 0;
        while s < j {
            let b = it.next().unwrap();
            let v = unsafe { *b.as_ref() };
            seen[v as usize] = true;
            unsafe { t.remove(b) };
            s += 1;
        }
        // remove one more element "from the side", reflecting it first
        let victim: u8 = kani::any();
        kani::assume(victim < N && !seen[victim as usize]);
        let b: Bucket<u8> = t.find(h(&victim), |x| *x == victim).unwrap();
        unsafe {
            it.reflect_remove(&b);
            t.remove(b);
        }
        assert!(it.len() == t.len(), "[KV] after reflect_remove + remove the iterator's count differs from the table's length");
        // the iterator now yields exactly the remaining elements
        let mut left = 0usize;
        while let Some(b) = it.next() {
            let v = unsafe { *b.as_ref() };
            assert!(v != victim && !seen[v as usize], "[KV] the iterator yields a removed element");
            seen[v as usize] = true;
            left += 1;
        }
        assert!(left == (N - j - 1) as usize, "[KV] the iterator does not yield exactly the remaining elements");
        kani::cover!(true, "reach: end of harness");
        core::mem::forget(t);
    }

    /// F2: `reflect_insert` is NOT an inverse of `reflect_remove`: for the bucket the iterator
    /// would yield next, reflect_remove then (re-fill) reflect_insert leaves it out of the
    /// iterator (the model transliterates this; griddle's fix dc3af20 restores a saved clone
    /// instead). The harness asserts the *surprising* fact so that a hashbrown version in
    /// which it stops holding is noticed.
    #[kani::proof]
    #[kani::unwind(20)]
    fn kv_reflect_insert_is_not_an_inverse() {
        const N: u8 = 6;
        let mut t = table(N);
        let mut it: RawIter<u8> = unsafe { t.iter() };
        let mut probe = it.clone();
        let next = probe.next().unwrap();
        let v = unsafe { *next.as_ref() };
        unsafe {
            it.reflect_remove(&next);
            // hashbrown's replace_bucket_with(.., |x| Some(x)) takes the element out and puts it back
            let still = t.replace_bucket_with(next.clone(), |x| Some(x));
            assert!(still);
            it.reflect_insert(&next);
        }
        let mut yields_v = false;
        let mut n = 0;
        while let Some(b) = it.next() {
            if unsafe { *b.as_ref() } == v {
                yields_v = true;
            }
            n += 1;
        }
        assert!(!yields_v && n == (N - 1) as usize, "[KV] hashbrown's reflect_insert now restores the next-to-yield bucket: the model's transliteration is out of date");
        kani::cover!(true, "reach: end of harness");
        core::mem::forget(t);
    }

    /// F3: `replace_bucket_with` restores items / growth_left / the bucket when the closure
    /// returns Some, and removes otherwise (model: same).
    #[kani::proof]
    #[kani::unwind(20)]
    fn kv_replace_bucket_with_restores() {
        let mut t = table(5);
        let k: u8 = kani::any();
        kani::assume(k < 5);
        let keep: bool = kani::any();
        let cap = t.capacity();
        let b = t.find(h(&k), |x| *x == k).unwrap();
        let still = unsafe { t.replace_bucket_with(b, |x| if keep { Some(x) } else { None }) };
        assert!(still == keep);
        assert!(t.len() == if keep { 5 } else { 4 });
        assert!(t.find(h(&k), |x| *x == k).is_some() == keep);
        if keep {
            assert!(t.capacity() == cap, "[KV] replace_bucket_with(Some) changed capacity()");
        }
        kani::cover!(true, "reach: end of harness");
        core::mem::forget(t);
    }

    /// F4: sizing facts the model includes as source text: capacity() of fresh tables and the
    /// shrink_to / reserve decisions, on the real table, for every small request.
    #[kani::proof]
    #[kani::unwind(20)]
    fn kv_sizing_small() {
        let c: usize = kani::any();
        kani::assume(c >= 1 && c <= 28);
        let t: RawTable<u8> = RawTable::with_capacity(c);
        let want_buckets = if c < 4 { 4 } else if c < 8 { 8 } else if c <= 14 { 16 } else { 32 };
        assert!(t.buckets() == want_buckets, "[KV] capacity_to_buckets differs from the extracted text");
        let want_cap = if want_buckets < 9 { want_buckets - 1 } else { want_buckets / 8 * 7 };
        assert!(t.capacity() == want_cap, "[KV] bucket_mask_to_capacity differs from the extracted text");
        kani::cover!(true, "reach: end of harness");
        core::mem::forget(t);
    }
}
